import sys, time, z3, numpy as rnp
sys.path.insert(0,"/tmp/probe")
import rcf
from rcf import Ctx, Sym, symarr, np as snp
import coxeter.shapes.convex_polyhedron as CP
import coxeter.shapes.polyhedron as PH
import coxeter.shapes.utils as U
CP.np=snp; PH.np=snp; U.np=snp

names=[f"v_{i}_{k}" for i in range(4) for k in range(3)]
c=Ctx(names, natoms=16, timeout_ms=60000)
V=symarr(c,"v",(4,3))
def det3(m): return snp.linalg.det(m)
orient=det3(rnp.array([V[1]-V[0],V[2]-V[0],V[3]-V[0]],dtype=object))
pre=[c.poly_z3(orient.num)>0]
for (a,b,cc) in [(0,2,1),(0,1,3),(0,3,2),(1,2,3)]:
    N=rnp.cross(V[b]-V[a],V[cc]-V[a]); nn=(N*N).sum()
    pre.append(c.poly_z3(nn.num)>0)

def spec_moments(V,tets):
    """exact volume, first and second moments by signed tets from origin (independent formulas)"""
    vol=0; m1=[0,0,0]; m2=[[0]*3 for _ in range(3)]
    for (a,b,cc) in tets:
        A,B,C=V[a],V[b],V[cc]
        d=det3(rnp.array([A,B,C],dtype=object))  # 6*signed volume of tet (0,A,B,C)
        vol=vol+d/6
        for i in range(3):
            m1[i]=m1[i]+d/24*(A[i]+B[i]+C[i])
            for j in range(3):
                s=(A[i]*A[j]+B[i]*B[j]+C[i]*C[j]) + (A[i]+B[i]+C[i])*(A[j]+B[j]+C[j])
                m2[i][j]=m2[i][j]+d/120*s
    return vol,m1,m2

def harness():
    t0=time.time()
    p=object.__new__(CP.ConvexPolyhedron)
    p._vertices=V.copy(); p._ndim=3; p._faces_are_convex=True
    # outward CCW faces for positive orientation: (0,2,1),(0,1,3),(0,3,2),(1,2,3)
    p._simplices=rnp.array([[0,2,1],[0,1,3],[0,3,2],[1,2,3]])
    vol=orient/6
    p._volume=vol
    p._find_simplex_equations()
    p._centroid_from_triangulated_surface()
    p._equations=p._simplex_equations
    p._area=p._calculate_surface_area()
    t1=time.time()
    it=p.inertia_tensor
    t2=time.time()
    print("  exec: setup %.2fs inertia %.2fs atoms %d"%(t1-t0,t2-t1,len(c.atoms)))
    return p,it
res,todo=c.explore(harness,pre,max_paths=16)
print("paths",len(res),"todo",len(todo),"queries",c.nq,"solver %.2fs"%c.tq)
for dec,st,out,pc in res:
    print(st,dec, out if st!="ok" else "")
    if st=="raise": print(c.last_tb)
    if st!="ok": continue
    p,it=out
    vol,m1,m2=spec_moments(V,[(0,2,1),(0,1,3),(0,3,2),(1,2,3)])
    claims=[]
    claims.append(("volume", p.volume - vol))
    for i in range(3): claims.append((f"centroid{i}", p.centroid[i]*vol - m1[i]))
    tr=m2[0][0]+m2[1][1]+m2[2][2]
    for i in range(3):
        for j in range(i,3):
            spec = (tr if i==j else 0) - m2[i][j]
            claims.append((f"I{i}{j}", it[i,j]-spec))
    for name,d in claims:
        t=time.time()
        r,s=c.check(*(pc+[c.poly_z3(d.num)!=0]))
        print("  claim",name,"residual terms",len(d.num),"->",r,"%.2fs"%(time.time()-t))
