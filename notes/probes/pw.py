"""Prototype: piecewise-constant values + ndarray subclass with symbolic masks (probe only)."""
import numpy as _np, z3, types
from fractions import Fraction as F

class LinReal:
    """thin wrapper of a z3 Real term (containment probes: concrete mesh, symbolic point)."""
    __slots__=("e",)
    def __init__(s,e): s.e=e
    @staticmethod
    def lift(x):
        if isinstance(x,LinReal): return x.e
        if isinstance(x,(int,_np.integer)): return z3.RealVal(int(x))
        if isinstance(x,F): return z3.RealVal(str(x))
        if isinstance(x,(float,_np.floating)): return z3.RealVal(str(F(float(x)).limit_denominator(10**12)))
        raise TypeError(type(x))
    def __add__(s,o): return LinReal(s.e+LinReal.lift(o))
    __radd__=__add__
    def __sub__(s,o): return LinReal(s.e-LinReal.lift(o))
    def __rsub__(s,o): return LinReal(LinReal.lift(o)-s.e)
    def __mul__(s,o): return LinReal(s.e*LinReal.lift(o))
    __rmul__=__mul__
    def __neg__(s): return LinReal(-s.e)

class PW:
    """finite-valued term: {Fraction: guard}"""
    __slots__=("cases",)
    def __init__(s,cases): s.cases={k:g for k,g in cases.items() if not z3.is_false(g)}
    @staticmethod
    def const(v): return PW({F(v):z3.BoolVal(True)})
    @staticmethod
    def lift(x):
        if isinstance(x,PW): return x
        if isinstance(x,PWBool): return PW({F(1):x.b,F(0):z3.Not(x.b)})
        if isinstance(x,(bool,_np.bool_)): return PW.const(int(x))
        return PW.const(F(x))
    def _bin(s,o,f):
        o=PW.lift(o); out={}
        for a,ga in s.cases.items():
            for b,gb in o.cases.items():
                v=f(a,b); g=z3.simplify(z3.And(ga,gb))
                out[v]=z3.Or(out[v],g) if v in out else g
        return PW(out)
    def __add__(s,o): return s._bin(o,lambda a,b:a+b)
    __radd__=__add__
    def __sub__(s,o): return s._bin(o,lambda a,b:a-b)
    def __rsub__(s,o): return PW.lift(o)._bin(s,lambda a,b:a-b)
    def __mul__(s,o): return s._bin(o,lambda a,b:a*b)
    __rmul__=__mul__
    def __floordiv__(s,o): return s._bin(o,lambda a,b:F(a//b))
    def _cmp(s,o,f):
        o=PW.lift(o); gs=[]
        for a,ga in s.cases.items():
            for b,gb in o.cases.items():
                if f(a,b): gs.append(z3.And(ga,gb))
        return PWBool(z3.simplify(z3.Or(*gs)) if gs else z3.BoolVal(False))
    def __eq__(s,o): return s._cmp(o,lambda a,b:a==b)
    def __ne__(s,o): return s._cmp(o,lambda a,b:a!=b)
    __hash__=None
    def __repr__(s): return f"PW({list(s.cases)})"
class PWBool:
    __slots__=("b",)
    def __init__(s,b): s.b=b
    def __bool__(s): raise RuntimeError("symbolic bool coerced")
    def __and__(s,o): return PWBool(z3.And(s.b,PWBool.lift(o)))
    __rand__=__and__
    def __or__(s,o): return PWBool(z3.Or(s.b,PWBool.lift(o)))
    def __invert__(s): return PWBool(z3.Not(s.b))
    def __mul__(s,o): return PW.lift(s)*o
    __rmul__=__mul__
    @staticmethod
    def lift(o): return o.b if isinstance(o,PWBool) else z3.BoolVal(bool(o))
def ite(g,a,b):
    a=PW.lift(a); b=PW.lift(b); out={}
    for v,ga in a.cases.items(): out[v]=z3.And(g,ga)
    for v,gb in b.cases.items():
        t=z3.And(z3.Not(g),gb); out[v]=z3.Or(out[v],t) if v in out else t
    return PW({k:z3.simplify(x) for k,x in out.items()})

class Sel:
    def __init__(s,arr,mask): s.arr=arr; s.mask=mask
class SArr(_np.ndarray):
    def __new__(cls,a):
        return _np.asarray(a,dtype=object).view(cls)
    def _ismask(s,k):
        return isinstance(k,_np.ndarray) and k.dtype==object and k.size and isinstance(k.flat[0],PWBool)
    def __getitem__(s,k):
        if s._ismask(k): return Sel(s,k)
        return super().__getitem__(k)
    def __setitem__(s,k,v):
        if s._ismask(k):
            base=_np.asarray(s)
            for idx in _np.ndindex(*k.shape):
                val = v.arr[idx] if isinstance(v,Sel) else v
                base[idx]=ite(k[idx].b,val,base[idx])
            return
        super().__setitem__(k,v)
    def _c(s,o,uf): return SArr(uf(_np.asarray(s),_np.asarray(o) if isinstance(o,_np.ndarray) else o,dtype=object))
    def __eq__(s,o): return s._c(o,_np.equal)
    def __ne__(s,o): return s._c(o,_np.not_equal)
    def __floordiv__(s,o): return SArr(_np.floor_divide(_np.asarray(s),o,dtype=object))

def sign_scalar(x):
    if isinstance(x,LinReal):
        return PW({F(1):x.e>0,F(-1):x.e<0,F(0):x.e==0})
    return PW.const(F((x>0)-(x<0)))
class Shim(types.ModuleType):
    def __getattr__(s,k): return getattr(_np,k)
    def sign(s,a):
        a=_np.asarray(a,dtype=object); out=_np.empty(a.shape,dtype=object)
        for i in _np.ndindex(*a.shape): out[i]=sign_scalar(a[i])
        return SArr(out)
    def atleast_2d(s,a): return SArr(_np.atleast_2d(_np.asarray(a,dtype=object)))
    def dot(s,a,b): return SArr(_np.dot(_np.asarray(a,dtype=object),_np.asarray(b,dtype=object)))
    def multiply(s,a,b): return SArr(_np.multiply(_np.asarray(a),_np.asarray(b),dtype=object))
    def sum(s,a,axis=None): return SArr(_np.sum(_np.asarray(a),axis=axis))
    def where(s,c,a,b):
        c=_np.asarray(c,dtype=object); a=_np.broadcast_to(_np.asarray(a,dtype=object),c.shape); b=_np.broadcast_to(_np.asarray(b,dtype=object),c.shape)
        out=_np.empty(c.shape,dtype=object)
        for i in _np.ndindex(*c.shape): out[i]=ite(PWBool.lift(c[i]),a[i],b[i])
        return SArr(out)
    def roll(s,a,**kw): return _np.roll(a,**kw)
np=Shim("pwnp")
