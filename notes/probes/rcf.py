"""Throwaway prototype 2: exact real-algebraic scalars (sympy rings) + z3 path engine.

Sym = num / prod(den_factors) over QQ[inputs, atoms]; atoms = algebraic roots with
defining relations a**k = h (h a polynomial), a >= 0.
"""
import time, types, itertools
from fractions import Fraction
import numpy as _np
import z3
from sympy.polys.rings import ring as _ring
from sympy import QQ


class Abort(BaseException):
    pass


class Ctx:
    """Polynomial ring + atom table + z3 translation + path engine."""

    def __init__(self, names, natoms=24, timeout_ms=30000):
        self.names = list(names)
        self.atom_names = [f"_a{i}" for i in range(natoms)]
        self.R, *gens = _ring(self.names + self.atom_names, QQ)
        self.gens = gens
        self.var = {n: g for n, g in zip(self.names + self.atom_names, gens)}
        self.atoms = []  # list of (gen, k, h_poly, kind)
        self.atom_key = {}
        self.squares = {}  # poly -> root poly
        self.z3vars = [z3.Real(n) for n in self.names + self.atom_names]
        self.timeout_ms = timeout_ms
        self.nq = 0
        self.tq = 0.0
        self.pc = []
        self.prefix = []
        self.pos = 0
        self.decisions = []
        self.new = []
        self._z3cache = {}

    # ---- construction
    def sym(self, name):
        return Sym(self, self.var[name])

    def const(self, x):
        return Sym(self, self.R(self._q(x)))

    @staticmethod
    def _q(x):
        if isinstance(x, (bool, _np.bool_)):
            return QQ(int(x))
        if isinstance(x, (int, _np.integer)):
            return QQ(int(x))
        if isinstance(x, (float, _np.floating)):
            f = Fraction(float(x))
            # rationalise: simplest fraction within 2 ulp of the double
            if f != 0:
                tol = abs(f) * Fraction(1, 2**51)
                n = 1
                while n < 10**18:
                    g = f.limit_denominator(n)
                    if abs(g - f) <= tol:
                        f = g
                        break
                    n *= 10
            return QQ(f.numerator, f.denominator)
        if isinstance(x, Fraction):
            return QQ(x.numerator, x.denominator)
        raise TypeError(type(x))

    # ---- z3 translation
    def poly_z3(self, p):
        key = p
        r = self._z3cache.get(key)
        if r is not None:
            return r
        terms = []
        for mon, coeff in p.terms():
            t = z3.RealVal(str(coeff))
            for v, e in zip(self.z3vars, mon):
                for _ in range(e):
                    t = t * v
            terms.append(t)
        r = z3.Sum(terms) if terms else z3.RealVal(0)
        self._z3cache[key] = r
        return r

    def atom_constraints(self):
        cs = []
        for g, k, h, kind in self.atoms:
            v = self.poly_z3(g)
            lhs = v
            for _ in range(k - 1):
                lhs = lhs * v
            cs.append(lhs == self.poly_z3(h))
            if k % 2 == 0:
                cs.append(v >= 0)
        return cs

    # ---- solver
    def check(self, *fs, timeout_ms=None):
        s = z3.SolverFor("QF_NRA")
        s.set("timeout", timeout_ms or self.timeout_ms)
        s.add(*self.atom_constraints())
        s.add(*fs)
        t = time.time()
        r = s.check()
        dt = time.time() - t
        self.tq += dt
        self.nq += 1
        if dt > 0.5:
            print("    slow query %.1fs -> %s  (%d assertions)" % (dt, r, len(s.assertions())))
        return str(r), s

    def branch(self, cond):
        c = z3.simplify(cond)
        if z3.is_true(c):
            return True
        if z3.is_false(c):
            return False
        if self.pos < len(self.prefix):
            d = self.prefix[self.pos]
        else:
            v = z3.simplify(z3.substitute(c, *self.sample)) if self.sample else None
            if v is None or not (z3.is_true(v) or z3.is_false(v)):
                v = self.model.eval(c, model_completion=True)
            d = z3.is_true(v)
            if not (z3.is_true(v) or z3.is_false(v)):
                raise Abort("cannot evaluate branch under model: %s" % v)
            self.new.append((self.decisions + [not d], self.pc + [z3.Not(c) if d else c]))
        self.pos += 1
        self.decisions.append(d)
        self.pc.append(c if d else z3.Not(c))
        return d

    def explore(self, fn, pre, max_paths=256, alt_timeout_ms=5000):
        global CTX
        CTX = self
        todo = [([], list(pre))]
        results = []
        self.pruned = 0
        self.inconclusive = 0
        while todo and len(results) < max_paths:
            prefix, pcx = todo.pop()
            r, s = self.check(*pcx, timeout_ms=alt_timeout_ms if prefix else 60000)
            if r == "unsat":
                self.pruned += 1
                continue
            if r != "sat":
                self.inconclusive += 1
                continue
            self.model = s.model()
            self.sample = self._rational_sample(self.model, pcx)
            self.prefix = prefix
            self.pos = 0
            self.decisions = []
            self.pc = list(pre)
            self.new = []
            try:
                out = fn()
                st = "ok"
            except Abort as a:
                out, st = a, "abort"
            except Exception as ex:  # noqa
                import traceback
                out, st = ex, "raise"
                self.last_tb = traceback.format_exc()
            results.append((list(self.decisions), st, out, list(self.pc)))
            todo.extend(self.new)
        return results, todo

    def _rational_sample(self, m, pcx):
        """Rational point near the model that still satisfies the path condition."""
        pairs = []
        exact = True
        for v in self.z3vars[: len(self.names)]:
            val = m.eval(v, model_completion=True)
            if z3.is_rational_value(val):
                pairs.append((v, val))
            else:
                exact = False
                pairs.append((v, z3.RealVal(str(val.approx(20).as_fraction()))))
        if self.atoms:
            return None
        if exact:
            return pairs
        ok = all(z3.is_true(z3.simplify(z3.substitute(f, *pairs))) for f in pcx)
        return pairs if ok else None

    # ---- atoms
    def root_atom(self, h, k):
        key = (h, k)
        if key in self.atom_key:
            return self.atom_key[key]
        g = self.gens[len(self.names) + len(self.atoms)]
        self.atoms.append((g, k, h, "root"))
        self.atom_key[key] = g
        if k == 2:
            self.squares[h] = g
        return g

    def opaque_atom(self, fname, args):
        key = (fname,) + tuple((a.num, tuple(sorted(a.den.items(), key=str))) for a in args)
        if key in self.atom_key:
            return self.atom_key[key]
        g = self.gens[len(self.names) + len(self.atoms)]
        self.atoms.append((g, 1, g, fname))  # trivial relation
        self.atom_key[key] = g
        return g


CTX = None


class SymBool:
    __slots__ = ("b",)

    def __init__(self, b):
        self.b = b

    def __bool__(self):
        return CTX.branch(self.b)

    def __and__(s, o):
        return SymBool(z3.And(s.b, _lb(o)))

    __rand__ = __and__

    def __or__(s, o):
        return SymBool(z3.Or(s.b, _lb(o)))

    __ror__ = __or__

    def __invert__(s):
        return SymBool(z3.Not(s.b))

    def __eq__(s, o):
        return SymBool(s.b == _lb(o))

    def __ne__(s, o):
        return SymBool(s.b != _lb(o))

    __hash__ = None


def _lb(o):
    return o.b if isinstance(o, SymBool) else z3.BoolVal(bool(o))


_SENT = object()


class _Defer(Exception):
    pass


def _d(f):
    def g(s, o):
        try:
            return f(s, o)
        except _Defer:
            return NotImplemented

    return g


class Sym:
    __slots__ = ("c", "num", "den")

    def __init__(self, c, num, den=None):
        self.c = c
        self.num = num
        self.den = den or {}

    # -- helpers
    def _co(self, o):
        if isinstance(o, Sym):
            return o
        if isinstance(o, _np.ndarray):
            raise _Defer()
        return Sym(self.c, self.c.R(Ctx._q(o)))

    def _reduce(self, p):
        """Reduce powers of root atoms using their relations."""
        c = self.c
        for g, k, h, kind in c.atoms:
            if kind != "root":
                continue
            idx = c.gens.index(g)
            if all(m[idx] < k for m in p.keys()):
                continue
            out = c.R(0)
            for mon, coeff in p.terms():
                e = mon[idx]
                if e >= k:
                    q, r = divmod(e, k)
                    m2 = list(mon)
                    m2[idx] = r
                    out += c.R({tuple(m2): coeff}) * h ** q
                else:
                    out += c.R({mon: coeff})
            p = out
        return p

    def _mk(self, num, den):
        c = self.c
        num = self._reduce(num)
        if not num:
            return Sym(c, c.R(0))
        # cancel
        den = dict(den)
        for f in list(den):
            while den.get(f, 0) > 0 and len(f) <= 64:
                q, r = divmod(num, f)
                if r:
                    break
                num = q
                den[f] -= 1
            if den.get(f) == 0:
                del den[f]
        return Sym(c, num, den)

    def _denpoly(self):
        p = self.c.R(1)
        for f, e in self.den.items():
            p *= f ** e
        return p

    @_d
    def __add__(s, o):
        o = s._co(o)
        if s.den == o.den:
            return s._mk(s.num + o.num, s.den)
        den = dict(s.den)
        for f, e in o.den.items():
            den[f] = max(den.get(f, 0), e)
        a = s.num
        b = o.num
        for f, e in den.items():
            ea = e - s.den.get(f, 0)
            eb = e - o.den.get(f, 0)
            if ea:
                a = a * f ** ea
            if eb:
                b = b * f ** eb
        return s._mk(a + b, den)

    __radd__ = __add__

    def __neg__(s):
        return Sym(s.c, -s.num, s.den)

    def __pos__(s):
        return s

    @_d
    def __sub__(s, o):
        return s + (-s._co(o))

    @_d
    def __rsub__(s, o):
        return s._co(o) + (-s)

    @_d
    def __mul__(s, o):
        o = s._co(o)
        den = dict(s.den)
        for f, e in o.den.items():
            den[f] = den.get(f, 0) + e
        r = s._mk(s.num * o.num, den)
        if o is s or (o.num == s.num and o.den == s.den):
            if not r.den:
                s.c.squares.setdefault(r.num, s.num) if not s.den else None
        return r

    __rmul__ = __mul__

    def _inv(s):
        c = s.c
        if not s.num:
            raise ZeroDivisionError("symbolic division by exact zero")
        num = c.R(1)
        for f, e in s.den.items():
            num *= f ** e
        n = s.num
        if n.is_ground:
            return Sym(c, num / n.LC if hasattr(n, "LC") else num, {})
        # normalise sign/content so that equal factors hash equal
        cont = n.LC
        n1 = n.quo_ground(cont)
        return s._mk(num.quo_ground(cont), {n1: 1})

    @_d
    def __truediv__(s, o):
        o = s._co(o)
        CTX_nonzero(o)
        return s * o._inv()

    @_d
    def __rtruediv__(s, o):
        CTX_nonzero(s)
        return s._co(o) * s._inv()

    def __pow__(s, k):
        if isinstance(k, (int, _np.integer)):
            if k >= 0:
                r = Sym(s.c, s.c.R(1))
                for _ in range(int(k)):
                    r = r * s
                return r
            return (Sym(s.c, s.c.R(1)) / s) ** (-k)
        if k == 0.5:
            return s.sqrt()
        raise NotImplementedError(k)

    # -- order
    def z3(s):
        """z3 term with explicit division (den known nonzero on this path)."""
        n = s.c.poly_z3(s.num)
        if not s.den:
            return n
        return n / s.c.poly_z3(s._denpoly())

    def _signpoly(s):
        """polynomial with the same sign as s (num * den for odd exponents)."""
        p = s.num
        for f, e in s.den.items():
            if e % 2:
                p = p * f
        return s._reduce(p)

    def _rel(s, o, op):
        if o is None or isinstance(o, (str, tuple, list)):
            raise _Defer()
        if isinstance(o, float) and o in (float("inf"), float("-inf")):
            return bool(op(0.0, o))
        d = s - s._co(o)
        return SymBool(op(s.c.poly_z3(d._signpoly()), 0))

    @_d
    def __lt__(s, o):
        return s._rel(o, lambda a, b: a < b)

    @_d
    def __le__(s, o):
        return s._rel(o, lambda a, b: a <= b)

    @_d
    def __gt__(s, o):
        return s._rel(o, lambda a, b: a > b)

    @_d
    def __ge__(s, o):
        return s._rel(o, lambda a, b: a >= b)

    @_d
    def __eq__(s, o):
        return s._rel(o, lambda a, b: a == b)

    @_d
    def __ne__(s, o):
        return s._rel(o, lambda a, b: a != b)

    __hash__ = None

    def __abs__(s):
        if s.num.is_ground and not s.den:
            return Sym(s.c, abs(s.num)) if False else (s if s.num.LC >= 0 else -s)
        return s if (s >= 0) else -s

    def conjugate(s):
        return s

    def is_const(s):
        return s.num.is_ground and not s.den

    def sqrt(s):
        c = s.c
        if not s.num:
            return s
        # sqrt(n/d) = sqrt(n*d_odd)/prod f^ceil(e/2)
        n = s.num
        den = {}
        for f, e in s.den.items():
            if e % 2:
                n = n * f
            den[f] = (e + 1) // 2
        n = s._reduce(n)
        root = c.squares.get(n)
        if root is not None and root not in [g for g, *_ in c.atoms]:
            r = Sym(c, root)
            r = r if (r >= 0) else -r
        else:
            if n.is_ground:
                q = Fraction(int(n.LC.numerator), int(n.LC.denominator))
                import math
                a, b = q.numerator, q.denominator
                ra, rb = math.isqrt(a), math.isqrt(b)
                if a >= 0 and ra * ra == a and rb * rb == b:
                    r = Sym(c, c.R(QQ(ra, rb)))
                else:
                    r = Sym(c, c.root_atom(n, 2))
            elif len(n) <= 120:
                co, facs = n.sqf_list()
                sq = c.R(1)
                rest = c.R(co)
                for f, m in facs:
                    sq *= f ** (m // 2)
                    if m % 2:
                        rest *= f
                if rest.is_ground:
                    rr = Sym(c, rest).sqrt() if rest != 1 else Sym(c, c.R(1))
                    g = Sym(c, sq)
                    g = g if (g >= 0) else -g
                    r = g * rr
                else:
                    lc = rest.LC
                    g = Sym(c, sq)
                    if not sq.is_ground:
                        g = g if (g >= 0) else -g
                    r = g * Sym(c, c.root_atom(rest, 2))
            else:
                r = Sym(c, c.root_atom(n, 2))
        out = r
        for f, e in den.items():
            fs = Sym(c, f)
            fa = fs if (fs >= 0) else -fs
            for _ in range(e):
                out = out / fa
        return out

    def __repr__(s):
        d = "" if not s.den else " / " + "*".join(f"({f})^{e}" for f, e in s.den.items())
        ns = str(s.num)
        return f"Sym({ns if len(ns)<200 else ns[:200]+'...'}{d})"


def CTX_nonzero(x):
    """Division guard: fork on denominator == 0 (a zero denominator path aborts)."""
    if x.is_const():
        if not x.num:
            raise ZeroDivisionError
        return
    if bool(x == 0):
        raise ZeroDivisionError("symbolic denominator can be zero on this path")


def symarr(c, prefix, shape):
    a = _np.empty(shape, dtype=object)
    for idx in _np.ndindex(*shape):
        a[idx] = c.sym(prefix + "_" + "_".join(map(str, idx)))
    return a


def has_sym(a):
    return isinstance(a, _np.ndarray) and a.dtype == object


# ---------------------------------------------------------------- numpy shim
class _Linalg:
    def norm(self, x, axis=None):
        x = _np.asarray(x)
        if x.dtype != object:
            return _np.linalg.norm(x, axis=axis)
        s = (x * x).sum(axis=axis)
        if isinstance(s, _np.ndarray):
            out = _np.empty(s.shape, dtype=object)
            for i in _np.ndindex(*s.shape):
                out[i] = _sqrt(s[i])
            return out
        return _sqrt(s)

    def det(self, m):
        m = _np.asarray(m)
        if m.dtype != object:
            return _np.linalg.det(m)
        if m.ndim > 2:
            out = _np.empty(m.shape[:-2], dtype=object)
            for i in _np.ndindex(*m.shape[:-2]):
                out[i] = self.det(m[i])
            return out
        assert m.shape == (3, 3)
        return (m[0, 0] * (m[1, 1] * m[2, 2] - m[1, 2] * m[2, 1]) - m[0, 1] * (m[1, 0] * m[2, 2] - m[1, 2] * m[2, 0]) + m[0, 2] * (m[1, 0] * m[2, 1] - m[1, 1] * m[2, 0]))

    def __getattr__(self, k):
        return getattr(_np.linalg, k)


def _sqrt(x):
    if isinstance(x, Sym):
        return x.sqrt()
    return _np.sqrt(x)


class SymNP(types.ModuleType):
    linalg = _Linalg()

    def __getattr__(self, k):
        return getattr(_np, k)

    def array(self, x, dtype=None, **kw):
        t = _np.array(x, dtype=object)
        if any(isinstance(v, Sym) for v in t.flat):
            return t
        return _np.array(x, dtype=dtype, **kw)

    def asarray(self, x, dtype=None, **kw):
        if isinstance(x, _np.ndarray) and x.dtype == object:
            return x
        t = _np.array(x, dtype=object)
        if any(isinstance(v, Sym) for v in t.flat):
            return t
        return _np.asarray(x, dtype=dtype, **kw)

    def zeros(self, shape, dtype=None):
        if dtype in (bool, int):
            return _np.zeros(shape, dtype=dtype)
        a = _np.empty(shape, dtype=object)
        a[...] = 0
        return a

    def empty(self, shape, dtype=None):
        return self.zeros(shape, dtype)

    def sqrt(self, x):
        if isinstance(x, Sym):
            return x.sqrt()
        if isinstance(x, _np.ndarray) and x.dtype == object:
            out = _np.empty(x.shape, dtype=object)
            for i in _np.ndindex(*x.shape):
                out[i] = _sqrt(x[i])
            return out
        return _np.sqrt(x)

    def cbrt(self, x):
        raise NotImplementedError

    def isclose(self, a, b, rtol=1e-5, atol=1e-8):
        if isinstance(a, Sym) or isinstance(b, Sym):
            a = a if isinstance(a, Sym) else b._co(a)
            b = b if isinstance(b, Sym) else a._co(b)
            return abs(a - b) <= (atol + rtol * abs(b))
        return _np.isclose(a, b, rtol, atol)

    def unique(self, a, axis=None, return_index=False):
        a = _np.asarray(a)
        if a.dtype != object:
            return _np.unique(a, axis=axis, return_index=return_index)
        # rows pairwise distinct? fork on each pair
        keep = []
        for i in range(len(a)):
            dup = False
            for j in keep:
                same = True
                for k in range(a.shape[1]):
                    x = a[i, k] - a[j, k]
                    if isinstance(x, Sym):
                        if not bool(x == 0):
                            same = False
                            break
                    elif x != 0:
                        same = False
                        break
                if same:
                    dup = True
                    break
            if not dup:
                keep.append(i)
        idx = _np.array(keep)
        return (a[idx], idx) if return_index else a[idx]

    def abs(self, x):
        if isinstance(x, Sym):
            return abs(x)
        x = _np.asarray(x)
        if x.dtype == object:
            out = _np.empty(x.shape, dtype=object)
            for i in _np.ndindex(*x.shape):
                out[i] = abs(x[i])
            return out
        return _np.abs(x)

    def hstack(self, t):
        return _np.hstack([_np.asarray(x, dtype=object) for x in t]) if any(getattr(x, "dtype", None) == object for x in t) else _np.hstack(t)

    def diag(self, v):
        v2 = _np.asarray(v, dtype=object) if any(isinstance(x, Sym) for x in _np.asarray(v, dtype=object).flat) else _np.asarray(v)
        if v2.dtype == object:
            n = len(v2)
            out = _np.empty((n, n), dtype=object)
            out[...] = 0
            for i in range(n):
                out[i, i] = v2[i]
            return out
        return _np.diag(v2)

    def argmax(self, a):
        a = _np.asarray(a)
        if a.dtype != object:
            return _np.argmax(a)
        best = 0
        for i in range(1, len(a)):
            if a[i] > a[best]:
                best = i
        return best


np = SymNP("symnp")
