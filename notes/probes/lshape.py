import numpy as np, warnings
warnings.simplefilter("ignore")
from coxeter.shapes import Polyhedron
# U-shaped prism (non star-shaped): polygon in xy extruded z in [0,1]
P=[(0,0),(5,0),(5,4),(4,4),(4,1),(1,1),(1,4),(0,4)]
n=len(P)
V=[(x,y,0) for x,y in P]+[(x,y,1) for x,y in P]
V=np.array(V,float)+np.array([0.3,0.2,0.1])
# caps triangulated (convex faces required): ear clipping by hand for bottom (cw from outside => reverse) 
tris=[(0,1,5),(1,4,5),(1,2,4),(2,3,4),(0,5,6),(0,6,7)]
faces=[]
for a,b,c in tris:
    faces.append([a,c,b])            # bottom (normal -z)
    faces.append([a+n,b+n,c+n])      # top
for i in range(n):
    j=(i+1)%n
    faces.append([i,j,j+n,i+n])
ph=Polyhedron(V,faces,faces_are_convex=True)
def exact(V,faces):
    vol=0;m1=np.zeros(3);m2=np.zeros((3,3))
    for f in faces:
        for k in range(1,len(f)-1):
            A,B,C=V[f[0]],V[f[k]],V[f[k+1]]; d=np.linalg.det([A,B,C])
            vol+=d/6; m1+=d/24*(A+B+C)
            m2+=d/120*(np.outer(A,A)+np.outer(B,B)+np.outer(C,C)+np.outer(A+B+C,A+B+C))
    return vol,m1/vol,np.trace(m2)*np.eye(3)-m2
vol,cen,I=exact(V,faces)
print("vol",ph.volume,vol,"area",ph.surface_area)
print("cen",ph.centroid,cen)
print("I impl\n",ph.inertia_tensor,"\nI exact\n",I)
pts=np.array([[2.5,2.5,0.5],[0.5,2.5,0.5],[2.5,0.5,0.5]])+np.array([0.3,0.2,0.1])
print("inside",ph.is_inside(pts),"expected [F,T,T]")
