import sys, time, z3, numpy as rnp
from fractions import Fraction as F
sys.path.insert(0,"/tmp/probe")
import rcf
from rcf import Ctx, Sym, SymBool, np as snp
import coxeter.shapes.polygon as PG

c=Ctx(["qx","qy","cx","cy","dens"],natoms=8,timeout_ms=20000)
QX,QY,CX,CY=c.sym("qx"),c.sym("qy"),c.sym("cx"),c.sym("cy")
K=lambda x:c.const(x)
# sin atoms: sx^2 = 1-cx^2 (sign free) -> register as root atoms without sign constraint
def free_root(h):
    g=c.gens[len(c.names)+len(c.atoms)]
    c.atoms.append((g,2,h.num,"root_free")); return Sym(c,g)
SX=free_root(1-CX*CX); SY=free_root(1-CY*CY)
# patch: reduction treats root_free like root; constraints: no sign
_orig_atom_constraints=c.atom_constraints
def atom_constraints():
    cs=[]
    for g,k,h,kind in c.atoms:
        v=c.poly_z3(g); cs.append(v*v==c.poly_z3(h))
        if kind=="root": cs.append(v>=0)
    return cs
c.atom_constraints=atom_constraints
_red=Sym._reduce
def _reduce(self,p):
    cc=self.c
    for g,k,h,kind in cc.atoms:
        if not kind.startswith("root"): continue
        idx=cc.gens.index(g)
        if all(m[idx]<k for m in p.keys()): continue
        out=cc.R(0)
        for mon,coeff in p.terms():
            e=mon[idx]
            if e>=k:
                q_,r_=divmod(e,k); m2=list(mon); m2[idx]=r_
                out+=cc.R({tuple(m2):coeff})*h**q_
            else: out+=cc.R({mon:coeff})
        p=out
    return p
Sym._reduce=_reduce
# phases: phi_x = qx/2, phi_y = qy/2 ; (cos,sin)(phi_x)=(CX,SX)
def cs_mult(cb,sb,n):
    """(cos,sin)(n*phi) from (cos,sin)(phi)"""
    if n<0:
        cc_,ss_=cs_mult(cb,sb,-n); return cc_,-ss_
    cc_,ss_=K(1),K(0)
    for _ in range(n): cc_,ss_=cc_*cb-ss_*sb, ss_*cb+cc_*sb
    return cc_,ss_
def phase_of(arg):
    """arg must be a*qx/2 + b*qy/2 with integers a,b -> (cos arg, sin arg)"""
    p=arg.num; assert not arg.den
    ix=c.names.index("qx"); iy=c.names.index("qy")
    a=b=F(0)
    for mon,co in p.terms():
        if sum(mon)!=1: raise ValueError("non-linear phase %s"%p)
        if mon[ix]==1: a=F(int(co.numerator),int(co.denominator))*2
        elif mon[iy]==1: b=F(int(co.numerator),int(co.denominator))*2
        else: raise ValueError("phase in other var")
    assert a.denominator==1 and b.denominator==1,(a,b)
    ca,sa=cs_mult(CX,SX,int(a)); cb,sb=cs_mult(CY,SY,int(b))
    return ca*cb-sa*sb, sa*cb+ca*sb
class C:
    """complex number with Sym parts"""
    def __init__(s,re,im): s.re=re; s.im=im
    @staticmethod
    def lift(x):
        if isinstance(x,C): return x
        if isinstance(x,complex): return C(K(x.real),K(x.imag))
        return C(x if isinstance(x,Sym) else K(x), K(0))
    def __add__(s,o):
        if isinstance(o,rnp.ndarray): return NotImplemented
        o=C.lift(o); return C(s.re+o.re,s.im+o.im)
    __radd__=__add__
    def __neg__(s): return C(-s.re,-s.im)
    def __sub__(s,o): return s+(-C.lift(o))
    def __mul__(s,o):
        if isinstance(o,rnp.ndarray): return NotImplemented
        o=C.lift(o); return C(s.re*o.re-s.im*o.im, s.re*o.im+s.im*o.re)
    __rmul__=__mul__
    def __truediv__(s,o):
        assert isinstance(o,(Sym,int,float)); return C(s.re/o,s.im/o)
# complex * Sym
_sm=Sym.__mul__
def sym_mul(s,o):
    if isinstance(o,complex): return C(s*o.real if o.real else K(0), s*o.imag)
    if isinstance(o,C): return o*s
    return _sm(s,o)
Sym.__mul__=sym_mul; Sym.__rmul__=sym_mul
def exp(a):
    a=rnp.asarray(a,dtype=object); out=rnp.empty(a.shape,dtype=object)
    for i in rnp.ndindex(*a.shape):
        z=a[i]; assert isinstance(z,C) and z.re.is_const() and not z.re.num, z
        co,si=phase_of(z.im); out[i]=C(co,si)
    return out
def sinc(a):
    a=rnp.asarray(a,dtype=object); out=rnp.empty(a.shape,dtype=object)
    PIc=PI
    for i in rnp.ndindex(*a.shape):
        x=a[i]*PIc      # sinc(x)=sin(pi x)/(pi x)
        if bool(x==0): out[i]=K(1)
        else:
            co,si=phase_of(x); out[i]=si/x
    return out
PI=c.const(F(355,113))   # probe shortcut: any constant works because pi cancels (x/pi*pi)
snp.pi=PI
snp.exp=exp; snp.sinc=sinc
def zeros(shape,dtype=None):
    a=rnp.empty(shape,dtype=object); a[...]=0; return a
snp.zeros=zeros
def isclose_arr(a,b,rtol=1e-5,atol=1e-8):
    a=rnp.asarray(a,dtype=object)
    if a.ndim==0: return bool((a[()]-b<=atol) ) and bool((b-a[()]<=atol))
    return rnp.array([bool(x-b<=atol) and bool(b-x<=atol) for x in a])
snp.isclose=isclose_arr
def cross(a,b,**kw): return rnp.cross(rnp.asarray(a,dtype=object),rnp.asarray(b,dtype=object),**kw)
snp.cross=cross
from coxeter.shapes import Polygon
pts=[(0,0),(3,0),(4,2),(1,3)]
if len(sys.argv)>1 and sys.argv[1]=="cw": pts=pts[::-1]
poly=Polygon(pts)
PG.np=snp
nz=int(round(poly.normal[2]))
poly._vertices=rnp.array([[K(x),K(y),K(0)] for x,y in pts],dtype=object)
poly._normal=rnp.array([K(0),K(0),K(nz)],dtype=object)
def harness():
    q=rnp.array([[QX,QY,K(0)]],dtype=object) if NQ==1 else rnp.array([[QX,QY,K(0)],[2*QX,2*QY,K(0)],[K(0),K(0),K(0)]],dtype=object)
    return poly.compute_form_factor_amplitude(q)
NQ=2
V=[rnp.array([K(x),K(y),K(0)],dtype=object) for x,y in pts]
Q=rnp.array([QX,QY,K(0)],dtype=object)
# generic q: q.e_k != 0, q != 0
pre=[]
for k in range(len(pts)):
    e=V[(k+1)%len(pts)]-V[k]; pre.append(c.poly_z3(rnp.dot(Q,e).num)!=0)
pre.append(c.poly_z3((QX*QX+QY*QY).num)>z3.RealVal("1/100"))
t0=time.time()
res,todo=c.explore(harness,pre,max_paths=4,alt_timeout_ms=3000)
print("paths",len(res),"pruned",c.pruned,"queries",c.nq,"wall %.1f"%(time.time()-t0))
# oracle: vertex form
orc=C(K(0),K(0)); N=len(pts); nvec=rnp.array([K(0),K(0),K(nz)],dtype=object)
for k in range(N):
    e0=V[k]-V[k-1]; e1=V[(k+1)%N]-V[k]
    w=rnp.dot(nvec,rnp.cross(e0,e1))/(rnp.dot(Q,e0)*rnp.dot(Q,e1))
    co,si=phase_of(rnp.dot(Q,V[k]))      # e^{-i x} = cos x - i sin x
    orc=orc+C(co*w,-si*w)

for dec,st,out,pc in res:
    print(st,len(dec), out if st!="ok" else "")
    if st=="raise": print(c.last_tb[-900:])
    if st!="ok": continue
    f0=C.lift(out[0])
    for name,d in [("Re",f0.re-orc.re),("Im",f0.im-orc.im)]:
        r,s=c.check(*(pc+[c.poly_z3(d._signpoly())!=0])); print("  F(q)==vertex-form oracle:",name,"residual terms",len(d.num),r)
    if NQ==2:
        f1=C.lift(out[2]); area=F(17,2)
        print("  F(0) =",f1.re,f1.im)
