import sys, time, z3, numpy as rnp
sys.path.insert(0,"/tmp/probe")
import rcf
from rcf import Ctx, Sym, symarr, np as snp
import coxeter.shapes.polygon as P, coxeter.shapes.utils as U
N=int(sys.argv[1]) if len(sys.argv)>1 else 4
names=[f"v_{i}_{k}" for i in range(N) for k in range(2)]+["t"]
c=Ctx(names,natoms=16,timeout_ms=60000)
class RowanStub:
    class mapping:
        @staticmethod
        def kabsch(X,Y):
            n=X[0]   # xy-plane case: n=(0,0,+-1)
            t=c.sym("t"); den=1+t*t
            u=[(1-t*t)/den,(2*t)/den,c.const(0)]
            w=[n[1]*u[2]-n[2]*u[1], n[2]*u[0]-n[0]*u[2], n[0]*u[1]-n[1]*u[0]]
            R=rnp.empty((3,3),dtype=object)
            for k in range(3): R[0,k]=u[k]; R[1,k]=w[k]; R[2,k]=n[k]
            return R,None
P.np=snp; P.rowan=RowanStub; U.np=snp
xy=symarr(c,"v",(N,2))
V=rnp.empty((N,3),dtype=object); V[:,:2]=xy; V[:,2]=c.const(0)
def fan(v):
    A2=0;cx=0;cy=0;ixx=0;iyy=0;ixy=0
    for i in range(1,len(v)-1):
        p0,p1,p2=v[0],v[i],v[i+1]
        a=((p1[0]-p0[0])*(p2[1]-p0[1])-(p2[0]-p0[0])*(p1[1]-p0[1]))   # 2*signed area
        A2=A2+a
        cx=cx+a*(p0[0]+p1[0]+p2[0]); cy=cy+a*(p0[1]+p1[1]+p2[1])       # 6*A*c
        # int x^2 over triangle = (a/2)/6*(x0^2+x1^2+x2^2+x0x1+x0x2+x1x2)
        def m2(k,l):
            s=0
            for P_ in (p0,p1,p2):
                s=s+P_[k]*P_[l]
            s=s+(p0[k]+p1[k]+p2[k])*(p0[l]+p1[l]+p2[l])
            return a/2*s/12
        ixx=ixx+m2(1,1); iyy=iyy+m2(0,0); ixy=ixy+m2(0,1)
    return A2,cx,cy,ixx,iyy,ixy
A2,cx,cy,ixx,iyy,ixy=fan(V)
c0=((V[2,0]-V[1,0])*(V[0,1]-V[1,1])-(V[2,1]-V[1,1])*(V[0,0]-V[1,0]))
pre=[c.poly_z3(A2.num)!=0, c.poly_z3(c0.num)!=0]
for i in range(N):
    for j in range(i+1,N):
        pre.append(c.poly_z3((V[i,0]-V[j,0]).num)!=0)   # generic position for the probe
def harness():
    t0=time.time()
    poly=P.Polygon(V.copy(),test_simple=False)
    out=(poly,poly.signed_area,poly.centroid,poly.planar_moments_inertia,poly.inertia_tensor)
    print("  path exec %.2fs"%(time.time()-t0))
    return out
t0=time.time()
res,todo=c.explore(harness,pre,max_paths=40)
print("pruned",c.pruned,"inconclusive",c.inconclusive);print("paths",len(res),"todo",len(todo),"queries",c.nq,"solver %.2fs"%c.tq,"wall %.2f"%(time.time()-t0))
for dec,st,out,pc in res:
    print(st,len(dec))
    if st=="raise": print(c.last_tb[-600:])
    if st!="ok": continue
    poly,sa,cen,pm,it=out
    nz=poly.normal[2]
    claims=[("signed_area", sa*nz*2 - A2), ("cx",cen[0]*3*A2-cx),("cy",cen[1]*3*A2-cy),("cz",cen[2]-0)]
    sgn = 1  # Ix should be int y^2 (positive): orientation-corrected
    claims+= [("Ix", pm[0]*nz - ixx if False else pm[0]*pm[0]-ixx*ixx), ("Iy",pm[1]*pm[1]-iyy*iyy)]
    for name,d in claims:
        t=time.time(); r,s=c.check(*(pc+[c.poly_z3(d.num)!=0])); print("  ",name,"residual terms",len(d.num),r,"%.2fs"%(time.time()-t))
    # Ixy: property says integral of xy for +z normal & ccw
    d=pm[2]-ixy
    r,s=c.check(*(pc+[c.poly_z3(nz.num)>0, c.poly_z3(A2.num)>0, c.poly_z3(d.num)!=0])); print("   Ixy (ccw,+z):",r)
    if r=="sat":
        m=s.model(); print("    witness",[(str(v),m[v]) for v in m.decls()][:10])
