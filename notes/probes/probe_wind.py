import z3, time, numpy as np
from fractions import Fraction as F
# U-shaped prism as in lshape.py, triangles from faces by fan
P=[(0,0),(5,0),(5,4),(4,4),(4,1),(1,1),(1,4),(0,4)]
n=len(P)
V=[(F(x),F(y),F(0)) for x,y in P]+[(F(x),F(y),F(1)) for x,y in P]
tris=[(0,1,5),(1,4,5),(1,2,4),(2,3,4),(0,5,6),(0,6,7)]
T=[]
for a,b,c in tris:
    T.append((a,c,b)); T.append((a+n,b+n,c+n))
for i in range(n):
    j=(i+1)%n
    T.append((i,j,j+n)); T.append((i,j+n,i+n))
px,py,pz=z3.Reals("px py pz")
p=(px,py,pz)
def rv(q): return z3.RealVal(str(q))
def sign(e): return z3.If(e>0,1,z3.If(e<0,-1,0))
def sign_or(a,b,c): return z3.If(a!=0,a,z3.If(b!=0,b,c))
total=0
for (a,b,c) in T:
    d=[[rv(V[k][i])-p[i] for i in range(3)] for k in (a,b,c)]
    vs=[sign_or(sign(d[k][0]),sign(d[k][1]),sign(d[k][2])) for k in range(3)]
    def cross(di,dj):
        return (di[1]*dj[0]-di[0]*dj[1], di[2]*dj[0]-di[0]*dj[2], di[2]*dj[1]-di[1]*dj[2])
    t0=cross(d[0],d[1]); t1=cross(d[1],d[2]); t2=cross(d[2],d[0])
    e0=sign_or(*[sign(t) for t in t0]); e1=sign_or(*[sign(t) for t in t1]); e2=sign_or(*[sign(t) for t in t2])
    tsign=sign(-t0[0]*d[2][2]-t1[0]*d[0][2]-t2[0]*d[1][2])
    fb=z3.If(vs[0]!=vs[1],e0,0)+z3.If(vs[1]!=vs[2],e1,0)+z3.If(vs[2]!=vs[0],e2,0)
    total=total+z3.If(fb!=0,tsign,0)
# winding_number = total // 2 (floor)  != 0
impl_inside = z3.Or(total>=2, total<=-1)   # floor(total/2)!=0 <=> total>=2 or total<=-1
def box(x0,x1,y0,y1): return z3.And(px>x0,px<x1,py>y0,py<y1,pz>0,pz<1)
strict_in=z3.Or(box(0,5,0,1),box(0,1,0,4),box(4,5,0,4),
                z3.And(px>0,px<5,py>0,py<=1,pz>0,pz<1))
def cbox(x0,x1,y0,y1): return z3.And(px>=x0,px<=x1,py>=y0,py<=y1,pz>=0,pz<=1)
closed=z3.Or(cbox(0,5,0,1),cbox(0,1,0,4),cbox(4,5,0,4))
strict_in=z3.Or(z3.And(px>0,px<5,py>0,py<1,pz>0,pz<1), z3.And(px>0,px<1,py>0,py<4,pz>0,pz<1), z3.And(px>4,px<5,py>0,py<4,pz>0,pz<1),
   z3.And(px>0,px<1,py==1,pz>0,pz<1), z3.And(px>4,px<5,py==1,pz>0,pz<1))
for name,claim in [("inside=>impl", z3.Implies(strict_in, impl_inside)), ("outside=>not impl", z3.Implies(z3.Not(closed), z3.Not(impl_inside)))]:
    s=z3.Solver(); s.set("timeout",300000)
    s.add(z3.Not(claim))
    t=time.time(); r=s.check(); print(name,r,"%.1fs"%(time.time()-t))
    if str(r)=="sat": print(s.model())
