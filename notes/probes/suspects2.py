import numpy as np, warnings
warnings.simplefilter("ignore")
from coxeter.shapes import *
from coxeter.families import PlatonicFamily, ArchimedeanFamily
# C14 spheropolygon irregular
core=[[0,0],[4,0],[4,1],[0,3]]
sp=ConvexSpheropolygon(core,0.5)
th=np.array([0.3,1.0,2.0,3.0,4.0,5.0,6.0])
d=sp.distance_to_surface(th)
c=sp.polygon.centroid[:2]
P=c+d[:,None]*np.c_[np.cos(th),np.sin(th)]
# exact distance from P to core polygon
V=sp.polygon.vertices[:,:2]
def dist(p):
    inside=True; best=1e9
    for i in range(len(V)):
        a,b=V[i],V[(i+1)%len(V)]
        e=b-a; t=np.clip(np.dot(p-a,e)/np.dot(e,e),0,1); best=min(best,np.linalg.norm(p-(a+t*e)))
        if e[0]*(p-a)[1]-e[1]*(p-a)[0]<0: inside=False
    return 0 if inside else best
print("spheropolygon |dist(P,core)-r|:",[round(abs(dist(p)-0.5),4) for p in P])
cp=ConvexPolygon(core); d2=cp.distance_to_surface(th); c2=cp.centroid[:2]
P2=c2+d2[:,None]*np.c_[np.cos(th),np.sin(th)]
def onb(p):
    best=1e9
    for i in range(len(V)):
        a,b=cp.vertices[i,:2],cp.vertices[(i+1)%4,:2]; e=b-a; t=np.clip(np.dot(p-a,e)/np.dot(e,e),0,1); best=min(best,np.linalg.norm(p-(a+t*e)))
    return best
print("convex polygon boundary residual:",[round(onb(p),6) for p in P2])
print("neg angles:", cp.distance_to_surface(np.array([-1.0, -7.0, 10.0])), cp.distance_to_surface(np.mod(np.array([-1.0,-7.0,10.0]),2*np.pi)))
# edges stale after merge_faces
cube=PlatonicFamily.get_shape("Cube")
tri=[]
for f in cube.faces: tri+= [[f[0],f[1],f[2]],[f[0],f[2],f[3]]]
ph=Polyhedron(cube.vertices,tri,faces_are_convex=True)
e0=len(ph.edges); ph.merge_faces(); print("edges before merge",e0,"after merge (cached)",len(ph.edges),"faces",ph.num_faces, "num_edges",ph.num_edges)
# improper rotation
for name in ["Snub Cuboctahedron"]:
    s=ArchimedeanFamily.get_shape(name)
    rng=np.random.default_rng(0)
    import rowan
    s2=ConvexPolyhedron(rowan.rotate(rowan.random.rand(1),s.vertices*np.array([1,1.3,0.7])))
    I=s2.inertia_tensor; w,Q=np.linalg.eigh(I); print(name,"det Q",np.linalg.det(Q))
V=np.array([[0,0,0],[2,0,0],[0,1,0],[0,0,3],[2,1,0.5]],float)+5
for k in range(4):
    w,Q=np.linalg.eigh(ConvexPolyhedron(V+k).inertia_tensor); print("det",round(np.linalg.det(Q),3),end=" ")
print()
# polygon area setter negative
p=Polygon([[0,0],[1,0],[1,1],[0,1]]); 
try:
    p.area=-2.0; print("polygon area=-2 ->",p.area,p.vertices[1])
except Exception as e: print("polygon area=-2 EXC",e)
ph=Polyhedron(cube.vertices,cube.faces)
try:
    ph.volume=-1.0; print("Polyhedron volume=-1 ->",ph.volume, ph.vertices[0])
except Exception as e: print("EXC",e)
