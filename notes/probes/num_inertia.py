import numpy as np, coxeter
from coxeter.shapes import ConvexPolyhedron, Polyhedron
rng=np.random.default_rng(1)
def exact(V,tris):
    vol=0;m1=np.zeros(3);m2=np.zeros((3,3))
    for a,b,c in tris:
        A,B,C=V[a],V[b],V[c]; d=np.linalg.det([A,B,C])
        vol+=d/6; m1+=d/24*(A+B+C)
        m2+=d/120*(np.outer(A,A)+np.outer(B,B)+np.outer(C,C)+np.outer(A+B+C,A+B+C))
    return vol,m1/vol,np.trace(m2)*np.eye(3)-m2
for trial in range(3):
    V=rng.normal(size=(4,3))+rng.normal(size=3)*2
    p=ConvexPolyhedron(V)
    vol,cen,I=exact(p.vertices,p.simplices)
    print("vol",p.volume,vol,"cen",np.abs(p.centroid-cen).max())
    print("I impl\n",p.inertia_tensor,"\nI exact\n",I)
    q=Polyhedron(p.vertices,p.faces)
    print("Polyhedron I\n",q.inertia_tensor)
