import numpy as np
from coxeter.families import PlatonicFamily, ArchimedeanFamily
REF = {"Cube": (8, 12, 6), "Dodecahedron": (20, 30, 12), "Icosahedron": (12, 30, 20), "Octahedron": (6, 12, 8), "Tetrahedron": (4, 6, 4)}
NAMES = tuple(PlatonicFamily.names)
ANAMES = tuple(ArchimedeanFamily.names)
def _platonic_facts(name: str) -> bool:
    """
    pre: name in NAMES
    post: _ == True
    """
    s = PlatonicFamily.get_shape(name)
    v, e, f = REF[name]
    el = s.edge_lengths
    return (s.num_vertices, s.num_edges, s.num_faces) == (v, e, f) and abs(s.volume - 1) < 1e-9 and (el.max() - el.min()) < 1e-9 * el.max()

def _arch_unit(name: str) -> bool:
    """
    pre: name in ANAMES
    post: _ == True
    """
    s = ArchimedeanFamily.get_shape(name)
    el = s.edge_lengths
    return abs(s.volume - 1) < 1e-9 and (el.max() - el.min()) < 1e-9 * el.max()
