import sys, time, z3, numpy as rnp, functools
from fractions import Fraction as F
sys.path.insert(0,"/tmp/probe")
import rcf
from rcf import Ctx, Sym, SymBool, np as snp
import coxeter.shapes.polygon as PG, coxeter.shapes.convex_polygon as CPG, coxeter.shapes.polyhedron as PH, coxeter.shapes.utils as U
import coxeter.extern.polytri.polytri as PT
exec(open("/tmp/probe/probe_cube.py").read().split("# ---------- base:")[0].split("c=Ctx(")[0])  # imports only
c=Ctx(["s","t0","t1","t2","tr"],natoms=24,timeout_ms=20000)
S=c.sym("s"); T=[c.sym("t0"),c.sym("t1"),c.sym("t2")]; TR=c.sym("tr"); K=lambda x: c.const(x)
# reuse stubs/shims from cube probe
src=open("/tmp/probe/probe_cube.py").read()
exec(src[src.index("# ---------- SymAngle"):src.index("# ---------- base:")])
for M in (PT,): M.np=snp
# extra shims
def sarray(x,dtype=None,**kw):
    t=rnp.array(x,dtype=object)
    if any(isinstance(v,Sym) for v in t.flat): return t
    r=rnp.array(x,dtype=dtype,**kw)
    if r.dtype.kind=="f":
        o=rnp.empty(r.shape,dtype=object)
        for i in rnp.ndindex(*r.shape): o[i]=K(float(r[i]))
        return o
    return r
snp.array=sarray
def inv(m):
    m=rnp.asarray(m,dtype=object); assert m.shape==(3,3)
    d=snp.linalg.det(m)
    cof=rnp.empty((3,3),dtype=object)
    for i in range(3):
        for j in range(3):
            r=[k for k in range(3) if k!=i]; cc=[k for k in range(3) if k!=j]
            cof[j,i]=((m[r[0],cc[0]]*m[r[1],cc[1]]-m[r[0],cc[1]]*m[r[1],cc[0]])*(-1)**(i+j))/d
    return cof
snp.linalg.inv=inv
def allclose(a,b,rtol=1e-5,atol=1e-8):
    a=rnp.asarray(a,dtype=object); b=rnp.broadcast_to(rnp.asarray(b,dtype=object),a.shape)
    for i in rnp.ndindex(*a.shape):
        x=a[i]; y=b[i]
        y=float(y) if not isinstance(y,Sym) else y
        d=x-y
        lim=atol+rtol*abs(y) if not isinstance(y,Sym) else atol+rtol*abs(y)
        if not (bool(d<=lim) and bool(-d<=lim)): return False
    return True
snp.allclose=allclose

# ---------- base U prism
Pxy=[(0,0),(5,0),(5,4),(4,4),(4,1),(1,1),(1,4),(0,4)]; n=len(Pxy)
base=[(x,y,0) for x,y in Pxy]+[(x,y,1) for x,y in Pxy]
tris=[(0,1,5),(1,4,5),(1,2,4),(2,3,4),(0,5,6),(0,6,7)]
faces=[]
for a,b,cc in tris: faces.append([a,cc,b]); faces.append([a+n,b+n,cc+n])
for i in range(n):
    j=(i+1)%n; faces.append([i,j,j+n,i+n])
V=rnp.empty((2*n,3),dtype=object)
for i,b in enumerate(base):
    for k in range(3): V[i,k]=S*K(b[k])+T[k]
lo=sys.argv[1] if len(sys.argv)>1 else "1/100"
pre=[c.poly_z3(S.num)>=z3.RealVal(lo), c.poly_z3(S.num)<=1000]
def det3(m): return snp.linalg.det(m)
def spec(V,faces):
    vol=0;m1=[0,0,0];m2=[[0]*3 for _ in range(3)]
    for f in faces:
        for k in range(1,len(f)-1):
            A,B,C=V[f[0]],V[f[k]],V[f[k+1]]; d=det3(rnp.array([A,B,C],dtype=object)); vol=vol+d/6
            for i in range(3):
                m1[i]=m1[i]+d/24*(A[i]+B[i]+C[i])
                for j in range(3):
                    m2[i][j]=m2[i][j]+d/120*((A[i]*A[j]+B[i]*B[j]+C[i]*C[j])+(A[i]+B[i]+C[i])*(A[j]+B[j]+C[j]))
    return vol,m1,m2
def harness():
    t=time.time()
    ph=PH.Polyhedron(V.copy(),[rnp.array(f) for f in faces],faces_are_convex=True)
    cen=ph.centroid; print("   centroid %.1fs"%(time.time()-t))
    it=ph.inertia_tensor; print("   inertia %.1fs"%(time.time()-t))
    return ph,cen,it
t0=time.time()
res,todo=c.explore(harness,pre,max_paths=6,alt_timeout_ms=3000)
print("paths",len(res),"todo",len(todo),"pruned",c.pruned,"inconcl",c.inconclusive,"queries",c.nq,"solver %.1fs"%c.tq,"wall %.1f"%(time.time()-t0))
vol,m1,m2=spec(V,faces)
for dec,st,out,pc in res:
    print(st,len(dec), out if st!="ok" else "")
    if st=="raise":
        r,s=c.check(*pc); m=s.model(); print("   witness:",{str(d):m[d] for d in m.decls() if str(d) in ("s","t0","t1","t2")}); print(c.last_tb[-300:])
    if st!="ok": continue
    ph,cen,it=out
    claims=[(f"centroid{i}",cen[i]*vol-m1[i]) for i in range(3)]
    tr_=m2[0][0]+m2[1][1]+m2[2][2]
    for i in range(3):
        for j in range(i,3): claims.append((f"I{i}{j}",it[i,j]-((tr_ if i==j else 0)-m2[i][j])))
    for name,d in claims:
        r,s=c.check(*(pc+[c.poly_z3(d.num)!=0]))
        msg=""
        if r=="sat":
            m=s.model(); msg=str({str(x):m[x] for x in m.decls() if str(x) in ("s","t0","t1","t2")})
        print("  ",name,"residual terms",len(d.num),r,msg)
