from typing import Dict, List
import coxeter
from coxeter.shape_getters import from_gsd_type_shapes
from coxeter.shapes import Sphere, Circle, Ellipse
from coxeter.shapes.utils import _map_dict_keys, _hoomd_dict_mapping
from coxeter.families import PlatonicFamily

KNOWN = ("Sphere", "Ellipsoid", "Polygon", "ConvexPolyhedron", "Mesh")

def _unknown_type_raises(t: str) -> bool:
    """
    pre: t not in KNOWN
    post: _ == True
    """
    try:
        from_gsd_type_shapes({"type": t, "diameter": 2.0, "a": 1.0, "b": 1.0, "c": 1.0})
    except ValueError:
        return True
    return False

def _save_dispatch(ft: str) -> bool:
    """
    pre: ft not in ("OBJ","OFF","STL","PLY","VTK","X3D","HTML")
    post: _ == True
    """
    cube = CUBE
    try:
        cube.save(ft, "/nonexistent-dir/x")
    except ValueError:
        return True
    return False
CUBE = PlatonicFamily.get_shape("Cube")

def _sphere_radius_guard(r: float) -> bool:
    """
    post: _ == True
    """
    try:
        s = Sphere(r)
    except ValueError:
        return not (r > 0)
    return r > 0 and s.radius == r

def _circle_area_setter_guard(r: float, a: float) -> bool:
    """
    pre: r > 0
    post: _ == True
    """
    c = Circle(r)
    try:
        c.area = a
    except ValueError:
        return not (a > 0) and c.radius == r
    return a > 0

def _map_keys(d: Dict[str, int]) -> Dict[str, int]:
    """
    post: len(_) <= len(d)
    """
    return _map_dict_keys(d, _hoomd_dict_mapping)

def _family_keyerror(name: str) -> bool:
    """
    pre: name not in PlatonicFamily.names
    post: _ == True
    """
    try:
        PlatonicFamily.get_shape(name)
    except KeyError:
        return True
    return False
