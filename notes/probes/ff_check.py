import numpy as np, warnings
warnings.simplefilter("ignore")
from coxeter.shapes import Polygon
rng=np.random.default_rng(3)
V=np.array([[0,0,0],[3,0.2,0],[4,2,0],[1.5,3,0],[-0.5,1.5,0]],float)
p=Polygon(V)
n=p.normal
q=rng.normal(size=(2,3)); q[:,2]=0
F=p.compute_form_factor_amplitude(q)
def vertex_form(V,n,q):
    N=len(V); out=0
    for k in range(N):
        e0=V[k]-V[k-1]; e1=V[(k+1)%N]-V[k]
        out+= np.dot(n,np.cross(e0,e1))*np.exp(-1j*np.dot(q,V[k]))/(np.dot(q,e0)*np.dot(q,e1))
    return out
for i in range(2): print(F[i], vertex_form(V,n,q[i]), -vertex_form(V,n,q[i]))
print("normal",n,"signed area",p.signed_area)
# brute force integral for reference
xs=np.linspace(-1,4.5,1201); ys=np.linspace(-0.5,3.5,1201); X,Y=np.meshgrid(xs,ys); pts=np.c_[X.ravel(),Y.ravel(),np.zeros(X.size)]
ins=p.is_inside(pts); dA=(xs[1]-xs[0])*(ys[1]-ys[0])
for i in range(2): print("numeric",np.sum(np.exp(-1j*pts[ins]@q[i]))*dA)
