import sys, time, z3, numpy as rnp
sys.path.insert(0,"/tmp/probe")
import rcf
from rcf import Ctx, Sym, SymBool
import coxeter.extern.bentley_ottmann.poly_point_isect as BO
# hashing for Sym (structural)
Sym.__hash__=lambda s: hash((s.num, tuple(sorted((str(f),e) for f,e in s.den.items()))))
FREE=sys.argv[1] if len(sys.argv)>1 else "all"
names=[f"v_{i}_{k}" for i in range(4) for k in range(2)]
c=Ctx(names,natoms=4,timeout_ms=10000)
base=[(0,0),(4,1),(5,5),(1,4)]
P=[]
for i in range(4):
    if FREE=="all" or str(i) in FREE.split(","):
        P.append((c.sym(f"v_{i}_0"),c.sym(f"v_{i}_1")))
    else:
        P.append((c.const(base[i][0]),c.const(base[i][1])))
def orient(a,b,d): return (b[0]-a[0])*(d[1]-a[1])-(b[1]-a[1])*(d[0]-a[0])
def seg_cross(a,b,p,q):
    # proper crossing predicate (strict), as z3 formula
    o1=c.poly_z3(orient(a,b,p).num); o2=c.poly_z3(orient(a,b,q).num); o3=c.poly_z3(orient(p,q,a).num); o4=c.poly_z3(orient(p,q,b).num)
    return z3.And(o1*o2<0, o3*o4<0)
crossing=z3.Or(seg_cross(P[0],P[1],P[2],P[3]), seg_cross(P[1],P[2],P[3],P[0]))
# margin-free precondition: general position (no three collinear, distinct x)
pre=[]
for i in range(4):
    for j in range(i+1,4):
        dx=c.poly_z3((P[i][0]-P[j][0]).num); pre.append(z3.Or(dx>z3.RealVal('1/1000'),dx<-z3.RealVal('1/1000')))
        for k in range(j+1,4):
            o=c.poly_z3(orient(P[i],P[j],P[k]).num); pre.append(z3.Or(o>z3.RealVal('1/100'),o<-z3.RealVal('1/100')))
def harness():
    pts=rnp.empty((4,3),dtype=object)
    for i in range(4): pts[i,0]=P[i][0]; pts[i,1]=P[i][1]; pts[i,2]=c.const(0)
    return len(BO.isect_polygon(pts))==0
t0=time.time()
res,todo=c.explore(harness,pre,max_paths=300,alt_timeout_ms=3000)
print("paths",len(res),"todo",len(todo),"pruned",c.pruned,"inconcl",c.inconclusive,"queries",c.nq,"solver %.1fs"%c.tq,"wall %.1f"%(time.time()-t0))
from collections import Counter
print(Counter((st, out if st=="ok" else type(out).__name__) for dec,st,out,pc in res))
bad=0
for dec,st,out,pc in res:
    if st=="raise": print(c.last_tb[-800:]); break
    if st!="ok": continue
    claim = z3.Not(crossing) if out else crossing
    r,s=c.check(*(pc+[z3.Not(claim)]),timeout_ms=20000)
    if r!="unsat":
        bad+=1; print("  path simple=%s"%out, "->",r, len(dec))
        if r=="sat" and bad<3: print(s.model())
print("claims not proved:",bad)
