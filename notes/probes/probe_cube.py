import sys, time, z3, numpy as rnp, functools
from fractions import Fraction as F
sys.path.insert(0,"/tmp/probe")
import rcf
from rcf import Ctx, Sym, SymBool, symarr, np as snp
import coxeter.shapes.polygon as PG, coxeter.shapes.convex_polygon as CPG, coxeter.shapes.polyhedron as PH, coxeter.shapes.utils as U

c=Ctx(["s","t0","t1","t2","tr"],natoms=24,timeout_ms=20000)
S=c.sym("s"); T=[c.sym("t0"),c.sym("t1"),c.sym("t2")]; TR=c.sym("tr")
K=lambda x: c.const(x)

# ---------- SymAngle
class Ang:
    def __init__(s,x,y,norm=False): s.x=x; s.y=y; s.norm=norm
    def __sub__(s,o):
        if isinstance(o,Ang): return Ang(s.x*o.x+s.y*o.y, s.y*o.x-s.x*o.y)
        return NotImplemented
    def half(s):
        if (s.y>0): return 0
        if (s.y==0):
            return 0 if (s.x>0) else 1
        return 1
def ang_lt(a,b):
    ha,hb=a.half(),b.half()
    if ha!=hb: return ha<hb
    return bool(a.x*b.y-a.y*b.x>0)
def ang_eq(a,b):
    return a.half()==b.half() and bool(a.x*b.y-a.y*b.x==0)
# ---------- shim extensions
def arctan2(y,x):
    y=rnp.asarray(y,dtype=object); x=rnp.asarray(x,dtype=object)
    out=rnp.empty(y.shape,dtype=object)
    for i in rnp.ndindex(*y.shape): out[i]=Ang(x[i],y[i])
    return out
def mod(a,m):
    if not (isinstance(a,rnp.ndarray) and a.dtype==object and a.size and isinstance(a.flat[0],Ang)): return rnp.mod(a,m)
    a=rnp.asarray(a,dtype=object); out=rnp.empty(a.shape,dtype=object)
    for i in rnp.ndindex(*a.shape): out[i]=Ang(a[i].x,a[i].y,True)
    return out
def lexsort(keys):
    dist,angs=keys
    idx=list(range(len(angs)))
    def cmp(i,j):
        if ang_lt(angs[i],angs[j]): return -1
        if ang_lt(angs[j],angs[i]): return 1
        if bool(dist[i]<dist[j]): return -1
        if bool(dist[j]<dist[i]): return 1
        return 0
    return rnp.array(sorted(idx,key=functools.cmp_to_key(cmp)))
snp.arctan2=arctan2; snp.mod=mod; snp.lexsort=lexsort
def mean(a,axis=None):
    a=rnp.asarray(a,dtype=object); return a.sum(axis=axis)/a.shape[axis]
snp.mean=mean
def cross(a,b,**kw): return rnp.cross(rnp.asarray(a,dtype=object),rnp.asarray(b,dtype=object),**kw)
snp.cross=cross
def roll(a,shift,axis=None): return rnp.roll(a,shift=shift,axis=axis)
# ---------- stubs
class RowanStub:
    class mapping:
        @staticmethod
        def kabsch(X,Y):
            n=X[0]
            cz=n[2]
            # Rodrigues rotation taking n to z (n unit): R = I + [v]x + [v]x^2/(1+c), v = n x z = (n1,-n0,0)
            if bool(cz==-1):
                Rn=rnp.array([[K(1),K(0),K(0)],[K(0),K(-1),K(0)],[K(0),K(0),K(-1)]],dtype=object)
            else:
                v=[n[1],-n[0],K(0)]
                vx=rnp.array([[K(0),-v[2],v[1]],[v[2],K(0),-v[0]],[-v[1],v[0],K(0)]],dtype=object)
                I=rnp.array([[K(1),K(0),K(0)],[K(0),K(1),K(0)],[K(0),K(0),K(1)]],dtype=object)
                Rn=I+vx+vx.dot(vx)/(1+cz)
            den=1+TR*TR
            Rt=rnp.array([[(1-TR*TR)/den,-(2*TR)/den,K(0)],[(2*TR)/den,(1-TR*TR)/den,K(0)],[K(0),K(0),K(1)]],dtype=object)
            return Rt.dot(Rn),None
class Hull2D:
    def __init__(s,pts):
        pts=rnp.asarray(pts,dtype=object); n=len(pts)
        def orient(i,j,k): return (pts[j,0]-pts[i,0])*(pts[k,1]-pts[i,1])-(pts[j,1]-pts[i,1])*(pts[k,0]-pts[i,0])
        verts=[]
        for i in range(n):
            # i is a vertex iff exists j such that all others strictly left of (i->j) or collinear-beyond... (probe: strict)
            isv=False
            for j in range(n):
                if j==i: continue
                if all(bool(orient(i,j,k)>0) for k in range(n) if k not in (i,j)):
                    isv=True; break
            if isv: verts.append(i)
        s.vertices=rnp.array(verts)
for M in (PG,CPG,PH,U): M.np=snp
PG.rowan=RowanStub; CPG.ConvexHull=Hull2D; PH.rowan=RowanStub
# ---------- base: cube [-1,1]^3, rational rotation from quaternion (1,2,2)/3 -> R0
def qrot(w,x,y,z):
    n=w*w+x*x+y*y+z*z
    return [[F(w*w+x*x-y*y-z*z,n),F(2*(x*y-w*z),n),F(2*(x*z+w*y),n)],
            [F(2*(x*y+w*z),n),F(w*w-x*x+y*y-z*z,n),F(2*(y*z-w*x),n)],
            [F(2*(x*z-w*y),n),F(2*(y*z+w*x),n),F(w*w-x*x-y*y+z*z,n)]]
R0=qrot(1,2,2,0) if len(sys.argv)>1 and sys.argv[1]=="rot" else [[1,0,0],[0,1,0],[0,0,1]]
base=[(-1,-1,-1),(-1,-1,1),(-1,1,-1),(-1,1,1),(1,-1,-1),(1,-1,1),(1,1,-1),(1,1,1)]
faces=[[0,2,6,4],[0,4,5,1],[4,6,7,5],[0,1,3,2],[2,3,7,6],[1,5,7,3]]
V=rnp.empty((8,3),dtype=object)
for i,b in enumerate(base):
    for k in range(3):
        V[i,k]=S*K(sum(F(R0[k][m])*b[m] for m in range(3)))+T[k]
pre=[c.poly_z3(S.num)>0]
def harness():
    t=time.time()
    ph=PH.Polyhedron(V.copy(),[rnp.array(f) for f in faces],faces_are_convex=True)
    a=ph.surface_area; print("   surface_area %.1fs"%(time.time()-t))
    v=ph.volume; print("   volume %.1fs"%(time.time()-t))
    return ph,a,v
t0=time.time()
res,todo=c.explore(harness,pre,max_paths=8,alt_timeout_ms=3000)
print("paths",len(res),"pruned",c.pruned,"inconcl",c.inconclusive,"queries",c.nq,"solver %.1fs"%c.tq,"wall %.1f"%(time.time()-t0))
for dec,st,out,pc in res:
    print(st,len(dec))
    if st=="raise": print(c.last_tb[-1500:])
    if st!="ok": continue
    ph,a,v=out
    for name,d in [("area",a-24*S*S),("volume",v-8*S*S*S)]:
        r,s=c.check(*(pc+[c.poly_z3(d.num)!=0])); print("  ",name,"residual terms",len(d.num),r, "atoms",len(c.atoms))
