import sys, time, z3, numpy as rnp
from fractions import Fraction as F
sys.path.insert(0,"/tmp/probe")
import pw
from pw import LinReal, PW, PWBool, SArr, np as snp
import coxeter.shapes.polygon as P
from coxeter.shapes import Polygon
# concrete non-convex polygon (reflex first corner, clockwise), lattice coords
pts=[(2,2),(0,4),(0,0),(5,0),(5,4),(3,4),(3,1)][::-1]
poly=Polygon(pts)   # real construction (concrete)
# exact rational state for the symbolic run
class R:
    class mapping:
        @staticmethod
        def kabsch(X,Y):
            nz=int(round(float(X[0][2])))
            Rm=rnp.array([[1,0,0],[0,nz,0],[0,0,nz]],dtype=object)  # proper rotation taking (0,0,nz) to z
            return Rm,None
P.np=snp; P.rowan=R
poly._vertices=rnp.array([[F(x),F(y),F(0)] for x,y in pts],dtype=object)
poly._normal=rnp.array([F(int(round(v))) for v in poly._normal],dtype=object)
px,py=z3.Reals("px py")
t=time.time()
res=poly.is_inside(rnp.array([[LinReal(px),LinReal(py),0]],dtype=object))
impl=res[0].b
print("exec %.2fs"%(time.time()-t), "normal",poly._normal)
# oracle: crossing parity with half-open rule
def rv(q): return z3.RealVal(str(F(q)))
cross=[]
n=len(pts)
for i in range(n):
    (x1,y1),(x2,y2)=pts[i],pts[(i+1)%n]
    if y1==y2: continue
    straddle = (rv(y1)>py)!=(rv(y2)>py)
    xint = rv(x1)+(py-rv(y1))*rv(F(x2-x1,y2-y1))
    cross.append(z3.And(straddle, px<xint))
par=z3.BoolVal(False)
for cnd in cross: par=z3.Xor(par,cnd)
# boundary exclusion: point on some edge segment
onb=[]
for i in range(n):
    (x1,y1),(x2,y2)=pts[i],pts[(i+1)%n]
    cr=(rv(x2-x1))*(py-rv(y1))-(rv(y2-y1))*(px-rv(x1))
    onb.append(z3.And(cr==0, px>=min(x1,x2),px<=max(x1,x2),py>=min(y1,y2),py<=max(y1,y2)))
s=z3.Solver(); s.add(z3.Not(z3.Or(*onb))); s.add(impl!=par)
t=time.time(); r=s.check(); print("impl == oracle for all points off the boundary:", "HOLDS" if str(r)=="unsat" else r, "%.2fs"%(time.time()-t))
if str(r)=="sat": print(s.model())
