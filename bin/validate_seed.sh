#!/bin/bash
# usage: validate_seed.sh <seed-dir-with-patch.diff+demo.py> <name>
# Confirms in a scratch worktree of /repo HEAD: demo passes without the patch, fails with it, test-suite passes with it.
# Tests that fail in the parallel run are re-run alone once: hypothesis deadlines make unrelated tests flaky on a loaded machine.
SRC="$1"; NAME="$2"
WT=/tmp/val_$NAME
git -C /repo worktree remove --force $WT >/dev/null 2>&1
git -C /repo worktree add --detach $WT HEAD >/dev/null 2>&1 || { echo "worktree failed"; exit 2; }
cd $WT
cp "$SRC/demo.py" demo_seed.py
PYTHONPATH=$WT /venv/bin/python demo_seed.py >/tmp/val_$NAME.clean.log 2>&1; RC_CLEAN=$?
git apply "$SRC/patch.diff" || { echo "patch does not apply"; cd /; git -C /repo worktree remove --force $WT; exit 2; }
PYTHONPATH=$WT /venv/bin/python demo_seed.py >/tmp/val_$NAME.seeded.log 2>&1; RC_SEEDED=$?
PYTHONPATH=$WT /venv/bin/python -m pytest -q -p no:cacheprovider -n 8 --timeout=900 >/tmp/val_$NAME.tests.log 2>&1; RC_TESTS=$?
TESTS="$(tail -1 /tmp/val_$NAME.tests.log)"
RERUN=""
if [ $RC_TESTS -ne 0 ]; then
  IDS=$(grep '^FAILED ' /tmp/val_$NAME.tests.log | awk '{print $2}' | sed 's/\[.*//' | sort -u | tr '\n' ' ')
  if [ -n "$IDS" ]; then
    PYTHONPATH=$WT /venv/bin/python -m pytest -q -p no:cacheprovider --timeout=900 $IDS >/tmp/val_$NAME.rerun.log 2>&1; RC_TESTS=$?
    RERUN=", \"failed_in_parallel_run_rerun_alone\": \"$(tail -1 /tmp/val_$NAME.rerun.log)\""
  fi
fi
cd /
git -C /repo worktree remove --force $WT
echo "{\"demo_rc_clean\": $RC_CLEAN, \"demo_rc_seeded\": $RC_SEEDED, \"tests_rc_seeded\": $RC_TESTS, \"tests_summary\": \"$TESTS\"$RERUN, \"repo_head\": \"$(git -C /repo rev-parse --short HEAD)\"}"
