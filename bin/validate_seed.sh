#!/bin/bash
# usage: validate_seed.sh <seed-dir-with-patch.diff+demo.py> <name>
# Confirms in a scratch worktree of /repo HEAD: demo passes without the patch, fails with it, test-suite passes with it.
SRC="$1"; NAME="$2"
WT=/tmp/val_$NAME
git -C /repo worktree remove --force $WT >/dev/null 2>&1
git -C /repo worktree add --detach $WT HEAD >/dev/null 2>&1 || { echo "worktree failed"; exit 2; }
cd $WT
cp "$SRC/demo.py" demo_seed.py
/venv/bin/python demo_seed.py >/tmp/val_$NAME.clean.log 2>&1; RC_CLEAN=$?
git apply "$SRC/patch.diff" || { echo "patch does not apply"; cd /; git -C /repo worktree remove --force $WT; exit 2; }
/venv/bin/python demo_seed.py >/tmp/val_$NAME.seeded.log 2>&1; RC_SEEDED=$?
/venv/bin/python -m pytest -q -p no:cacheprovider -n 8 --timeout=900 >/tmp/val_$NAME.tests.log 2>&1; RC_TESTS=$?
TESTS="$(tail -1 /tmp/val_$NAME.tests.log)"
cd /
git -C /repo worktree remove --force $WT
echo "{\"demo_rc_clean\": $RC_CLEAN, \"demo_rc_seeded\": $RC_SEEDED, \"tests_rc_seeded\": $RC_TESTS, \"tests_summary\": \"$TESTS\", \"repo_head\": \"$(git -C /repo rev-parse --short HEAD)\"}"
