#!/bin/bash
# usage: benignrun.sh <patch.diff> <ID> [more IDs]
# Behaviour-preserving change applied to a scratch worktree: every check must stay at exit 0 (no false alarm, no harness error).
exec "$(dirname "$0")/seedrun.sh" "$@"
