#!/usr/bin/env python3
"""Regenerate MANIFEST.json from the table below (keeps it schema-valid at all times)."""
import json
import os

VERIF = os.path.dirname(os.path.dirname(os.path.abspath(__file__)))
E2 = "symx (symbolic execution of the real numpy code over the reals; sympy normal forms + z3 QF_NRA)"
E1 = "CrossHair 0.0.110 (symbolic execution of Python with z3)"

# id -> (engine, technique, level text, level note, design ref)
CLAIMED = {}
NOT_YET = {}


def claim(pid, engine, technique, text, note, ref):
    CLAIMED[pid] = (engine, technique, text, note, ref)


claim("C10", "symx",
      "bounded symbolic execution + SMT (z3 QF_NRA) of the real getters; all axis orderings as paths",
      "Every getter of Circle/Ellipse/Sphere/Ellipsoid is executed with all radii, semi-axes and centre components as free reals and PI as a symbol; "
      "each reported measure is compared with the closed form of its defining integral and the solver shows the difference cannot be non-zero on any "
      "path (every ordering of the axes incl. ties). No size bound. Elliptic integrals are opaque function symbols: for perimeter/surface area the "
      "wiring (arguments, coefficients, branch) is decided, not the special-function values. Counterexamples are replayed on the float64 code.",
      "reals not floats (A1); scipy.special as uninterpreted functions with range facts; z3 and sympy trusted; relative axis gaps of 1e-15 outside",
      "DESIGN.md §6 C10")

claim("C04", "symx",
      "bounded symbolic execution + SMT (z3 QF_NRA) of the real Polygon/ConvexPolygon code with free vertex coordinates",
      "Polygon/ConvexPolygon constructors and getters are executed with all 2n in-plane coordinates free (n = 3, 4 quick; 5, 6 thorough), in the xy-plane "
      "and in tilted planes (rational rotation, free offset), default and explicit normals of either sign, both orientations; area, signed area, perimeter, "
      "centroid, planar and polar moments and the inertia tensor are compared with an independent fan-decomposition oracle and the solver shows the "
      "residual cannot be non-zero on any explored path. Bounded: n <= 6, path budget per obligation, alternatives the solver could not refute are counted "
      "in the evidence. Counterexamples are replayed on the float64 code.",
      "reals not floats (A1); kabsch and 2-D qhull replaced by contract stubs; simplicity of the input is a precondition (orientation predicates); z3/sympy trusted",
      "DESIGN.md §6 C04")

claim("C01", "symx",
      "bounded symbolic execution + SMT (z3 QF_NRA) of the real ConvexPolyhedron constructor and measure getters",
      "The real constructor (exact hull stub with several qhull output orders, _combine_simplices, _sort_simplices, sort_faces) and all measure getters are "
      "executed on ten base solids (4-12 vertices, incl. irregular kite/trapezoid facets and coplanar lattice facets) placed by a free scale s>0, a free "
      "translation and rational rotations, with the input vertices in several orders, plus a tetrahedron with all 12 coordinates free; volume, total and "
      "per-face area, centroid, face centroids and the inertia tensor are compared with signed-tetrahedron sums over an independently computed facet list; "
      "z3 shows every residual cannot be non-zero on the explored paths. Bounded: base set, path budget (the sorting code forks on the placement), "
      "unrefuted alternatives are counted in the evidence. In addition all 290 tabulated solids (4-120 vertices; index enumerated by z3 until unsat) are built "
      "natively from permuted, rotated, off-origin copies of their vertices and compared with an independent brute-force float reference (1e-9).",
      "reals not floats (A1); qhull and kabsch as contract stubs; z3/sympy trusted",
      "DESIGN.md §6 C01")
claim("C06", "symx",
      "symbolic execution of the real is_inside with a free query point (piecewise-constant terms); z3 decides impl <=> exact membership for all points",
      "Polygon/ConvexPolygon.is_inside run once per concrete rational polygon (3-12 vertices, convex and non-convex, both orientations, xy-plane and tilted "
      "planes, default/explicit normals, three in-plane kabsch rotations, (3,), (N,3), (N,2) inputs, batches of 3) with the query point free in the polygon's "
      "plane; one QF_LRA query per obligation shows the result equals crossing parity for every point of the plane outside a 1e-3 band around the boundary, "
      "including the measure-zero alignments the winding-number code special-cases. Circle/Ellipse: radius/semi-axes, centre and point all free (QF_NRA).",
      "reals not floats (A1); kabsch contract stub; polygons from a concrete base list; z3 trusted",
      "DESIGN.md §6 C06")

claim("C05", "symx",
      "symbolic execution of the real is_inside with free query points (piecewise-constant terms / concolic paths); z3 decides impl <=> exact membership over all of space",
      "ConvexPolyhedron.is_inside and Polyhedron.is_inside (winding number, real polytri triangulation) run once per concrete rational solid (convex, "
      "non-convex, non-star-shaped, genus 1; rational rotations and offset; (3,), (N,3), batch of 3) with the query point(s) free in R^3: one query per "
      "obligation shows the result equals membership in an independent convex decomposition for every point off the surface, including points sharing "
      "coordinates with vertices. Sphere/Ellipsoid: all parameters and the point free. ConvexSpheropolyhedron.is_inside (branching code incl. nested "
      "ConvexPolyhedron constructions): box cores, free point and rounding radius, concolic path budget, oracle = distance to the box.",
      "reals not floats (A1); qhull/kabsch contract stubs; base-set solids <= 16 vertices; path budget for the spheropolyhedron",
      "DESIGN.md §6 C05")
claim("C08", "symx",
      "symbolic execution of every setter found by reflection with a free real target of either sign; z3 decides read-back, similarity and refusal claims",
      "All ~100 settable properties of the ten classes are enumerated at run time; each setter runs with a free real target v, the code's own guards fork "
      "the paths so v>0 and v<=0 are both covered; claims: read-back equals v, one common positive factor on all vertices/radii/semi-axes, normals and "
      "centres unchanged (translation for centroid/center), ValueError and untouched state for v<=0; NaN produced by sqrt/power of a negative double is "
      "modelled. Curved shapes with all parameters free; polytopes are concrete off-origin tilted base shapes.",
      "reals not floats (A1); NaN targets outside; single semi-axes and rounding radii set one parameter only; miniball modelled for concrete points only",
      "DESIGN.md §6 C08")

claim("C02", "symx",
      "bounded symbolic execution + SMT (z3 QF_NRA) of the real Polyhedron code incl. polytri and per-face ConvexPolygon construction, free placement",
      "Polyhedron constructor, volume, get_face_area (real ConvexPolygon constructor per face), surface_area, centroid (real polytri ear clipping incl. matrix "
      "inverse and thresholds) and inertia_tensor run on L/U/C/arrow prisms with triangulated caps, a frame with a hole, a dented star-shaped hull and Polyhedron "
      "copies of convex solids, placed by a free scale s in [1/4,100], a free translation and rational rotations; compared with signed-tetrahedron sums over a "
      "fan triangulation of the given faces. In the quick tier every alternative of every obligation was refuted (one path covers all placements).",
      "reals not floats (A1); scale range chosen where polytri's absolute thresholds are inactive; kabsch / 2-D qhull contract stubs",
      "DESIGN.md §6 C02")
claim("C03", "symx",
      "symbolic execution of mutation histories with symbolic arguments; every observable compared with a freshly constructed shape; z3 decides the equalities",
      "All setters (reflection) plus diagonalize_inertia (orthogonal matrices by the eigh contract, proper and improper), merge_faces, sort_faces, to_hoomd and a "
      "read-everything step (fills caches) run on base shapes of the six vertex-based classes with free positive targets in [1/10,1000] and free centroids; "
      "histories of depth 1 over the whole alphabet and depth 2 (quick) / 3 (thorough) over a reduced one. Afterwards faces, cycles, plane equations, "
      "neighbours, edges, simplices (triangulation-invariant facts), volume, area, centroid, radii are compared with a shape freshly built by the real "
      "constructor from the current vertices; after an exception the raw state must be unchanged; the orientation of a fixed vertex quadruple must survive "
      "diagonalize_inertia.",
      "reals not floats (A1); eigh/qhull/kabsch/lstsq contract stubs; a mirror finding needs the real eigh to reproduce it; bounded depth and path budget",
      "DESIGN.md §6 C03")

claim("C16", "symx",
      "symbolic execution of every public query (reflection) on shapes with a free translation; state, handed-out arrays and arguments compared as terms; z3 decides the identities",
      "All public properties and query/export methods of the ten classes (~290) are enumerated at run time and executed on base shapes placed by a free "
      "translation; afterwards the raw state, every array handed out before the query and every array argument must be unchanged as symbolic terms, and "
      "repeating the query must give the same answer; ordered pairs of state-touching queries in the thorough tier.",
      "reals not floats (A1); plot/plato excluded; form factors in C12; miniball on symbolic points excluded; contract stubs",
      "DESIGN.md §6 C16")

claim("C07", "symx",
      "symbolic execution of the real ConvexPolyhedron constructor, Polyhedron.sort_faces and merge_faces with free placement; per-path structural claims, geometric ones decided by z3",
      "Whole ConvexPolyhedron constructor (exact hull stub in several output orders, _combine_simplices, _sort_simplices incl. the arctan2/lexsort pre-sort, "
      "sort_faces, _find_neighbors) on eleven base solids under free scale/translation, rational rotations and vertex permutations; Polyhedron.sort_faces on "
      "facets with shuffled list and rotated / reversed / arbitrarily ordered cycles (seeded scrambles, several per shape incl. cuboctahedron and a corner-cut "
      "cube); merge_faces on shuffled, mixed-winding triangulations. Claims: faces = hull facets, counter-clockwise from outside, unit outward normals, plane "
      "contains its face and all other vertices strictly inside, symmetric neighbours = shared edges, unique sorted edges, Euler, num_edges, simplices "
      "triangulate the faces, dihedral cosine. Thorough: tetrahedron with 12 free coordinates through the constructor. In addition the structure (facets, "
      "orientation, unit outward equations, neighbours, edges, Euler) of all 290 tabulated solids (up to 120 vertices; index enumerated by z3) is compared "
      "natively with an independent brute-force facet enumeration.",
      "reals not floats (A1); qhull/kabsch contract stubs; scrambles are a seeded finite sample; path budget",
      "DESIGN.md §6 C07")
claim("C09", "symx",
      "symbolic execution of the public queries on g.X0 (free scale in [1e-3,1e3], free translation, rational rotations, relabellings) compared with the transformation law on the exact concrete run on X0",
      "For base shapes of the six vertex-based classes every listed query (sizes, centroids, normals, inertia tensors, curvature descriptors, in/circum-ball "
      "radii, containment of transformed probe points) is executed with s and t symbolic; lengths/areas/volumes scale by s, s^2, s^3, points move with g, "
      "tensors follow s^5 R I R^T + parallel axis (s^4 for laminae), dimensionless quantities and containment are unchanged; every path on which a valid "
      "shape raises is a violation whose witness is the scale (this is how the absolute thresholds of polytri were found). Polygon(test_simple=True) runs "
      "the real Bentley-Ottmann sweep under the same transformations.",
      "reals not floats (A1); finite rotation and relabelling lists; contract stubs; minimal bounding balls excluded",
      "DESIGN.md §6 C09")
claim("C11", "symx",
      "symbolic execution of the Steiner / curvature getters with free rounding radius and free placement or coordinates; identities decided by z3 with arccos uninterpreted",
      "ConvexSpheropolygon area/perimeter on cores with all coordinates free (n=3,4; 5 thorough) and r>=0 free; ConvexSpheropolyhedron volume, surface_area, "
      "mean_curvature and ConvexPolyhedron mean_curvature, tau, asphericity, iq, get_dihedral on base solids with free scale/translation, rational rotations "
      "and r>=0 free, against A+Pr+pi r^2, P+2 pi r, V+Sr+4 pi M r^2+4/3 pi r^3, S+8 pi M r+4 pi r^2, M+r with M = sum_e L_e(pi-phi_e)/(8 pi) written "
      "independently from the exact facet planes.",
      "reals not floats (A1); arccos is an uninterpreted function (congruence, range, reflection facts): its numerical value is outside",
      "DESIGN.md §6 C11")
claim("C19", "symx+crosshair",
      "symbolic execution of gsd_shape_spec/from_gsd_type_shapes, repr/eval and to_hoomd with free placement (term equality by z3) + CrossHair on the string/dict dispatch",
      "All ten classes: GSD and repr round trips on shapes with a free translation (curved shapes: all parameters free) compare class and vertices/faces/"
      "radii/axes/centre/normal as terms (a scalar prints as a token that eval maps back); to_hoomd: returned vertices = original minus the exact centroid, "
      "centroid (0,0,0), volume and inertia tensor about the centroid from an independent oracle, sweep radius, object unchanged. CrossHair: missing / "
      "unknown type raises ValueError, dispatch table, to_json key sets / AttributeError.",
      "reals not floats (A1); repr(float) round-trips (Python guarantee); CrossHair bounded by string/list length and per-condition timeout",
      "DESIGN.md §6 C19")

claim("C13", "symx",
      "symbolic execution of the ball getters over free-parameter shape families with an exact least-squares stub; definition / RuntimeError claims decided by z3 (QF_NRA)",
      "Rectangle a x b, kite, box a x b x c (all parameters and offsets free, sizes in [1/2,4]), triangle / tetrahedron with a free vertex (all coordinates "
      "free in the thorough tier), placement-free base polygons and solids, curved shapes with free axes: circum-ball through every vertex, in-ball tangent "
      "to every edge / face plane from inside, centred balls centred at the exact centroid with the extreme vertex / face distance, and RuntimeError wherever "
      "the parameters violate the existence equation by 1 %. The residual test of the code is a polynomial branch condition through the exact lstsq stub. "
      "minimal_bounding_*: coxeter's wrapper around miniball (exact contract stub on concrete points) must return the exact smallest enclosing ball (brute-force oracle; incl. solids whose circumsphere is not minimal), incl. its retry loop under an environment "
      "model (the first k miniball calls raise LinAlgError, rowan.random.rand returns chosen rational unit quaternions, exact quaternion algebra).",
      "reals not floats (A1); lstsq/miniball/qhull/kabsch contract stubs; minimality of the miniball result is third-party code (outside)",
      "DESIGN.md §6 C13")
claim("C18", "z3+crosshair",
      "z3 model enumeration of the entry index over the finite tables (exhaustive, certified by the final unsat) + CrossHair on symbolic unknown names/DOIs",
      "All 290 tabulated entries (Platonic 5, Archimedean 13, Catalan 13, Johnson 92, prism/antiprism 16, pyramid/dipyramid 6, science.1220869 145) are "
      "visited as z3 models of the index constraint; on each the real loader and ConvexPolyhedron constructor run in float64 and are compared with a "
      "literature table (V/E/F, unit volume, equal edges, regular faces, insphere for Catalan, repository entries against the named family they cite, "
      "iteration order). Unknown names and DOIs as symbolic strings (CrossHair) must raise KeyError.",
      "finite-domain enumeration (no symbolic numerics, tolerance 1e-6); reference table from the literature; CrossHair bounded by string length",
      "DESIGN.md §6 C18")
claim("C20", "symx+crosshair",
      "symbolic execution of the real writers with token-valued coordinates + independent parsers; coordinate identity decided by z3; CrossHair on the save() dispatch",
      "All seven writers run on meshes with mixed face degrees (corner-cut cube, frustum, L prism; Polyhedron and ConvexPolyhedron) placed by a free scale "
      "and translation; a symbolic coordinate prints as a token, independent parsers per format must recover a token denoting the same scalar at every "
      "vertex slot, the same cycles (index base), declared counts equal to the data, STL fan triangles with outward normals and the polyhedron's vertices; "
      "the shape's whole stored state (vertices, faces, cached centroid / volume / equations) and derived answers are unchanged; scale free in [1e-5, 1e5]. CrossHair: save() dispatches the seven strings and raises ValueError for any other string.",
      "reals not floats (A1); decimal rendering of doubles is outside the encoding (bit-exact read-back only on the float64 code at the path samples)",
      "DESIGN.md §6 C20")

claim("C14", "symx",
      "symbolic execution of distance_to_surface with a free direction parameter and turn count (exact angle algebra); boundary-membership oracle decided by z3 (QF_NRA)",
      "theta = atan2(2t, 1-t^2) + 2 pi k with t a free real and k in {-1,0,1} (thorough -2..2), i.e. any real angle incl. outside [0, 2 pi). Circle and "
      "Ellipse fully free; ConvexPolygon on six concrete polygons (irregular, axis-aligned edges, offsets); ConvexSpheropolygon on regular and irregular cores with turn counts -1, 0, 1. The real code "
      "runs through symx's angle algebra (arctan2, mod 2 pi, comparisons as half-plane + cross-product predicates, exact cos/sin/tan); claims: the point "
      "centroid + d(cos, sin) lies on the boundary (all edge half-planes <= 0 and one = 0; ellipse form = 1; distance to the core = r).",
      "reals not floats (A1; theta = +-pi/2 excluded for polygons); concrete polygons n <= 6; path budget",
      "DESIGN.md §6 C14")
claim("C15", "symx",
      "symbolic execution of the real constructors (incl. the vendored Bentley-Ottmann sweep) with a free vertex / displacement / radius; accept-reject outcome per path vs an exact margin oracle decided by z3",
      "Polygon(test_simple=True) on simple, bow-tie, pentagram and arrow cycles with one vertex free in [-8,8]^2 (xy-plane and a tilted plane): the sweep's "
      "events, red-black tree and epsilon comparisons run under the path engine (hundreds of paths); on each path accepted => not clearly crossing, rejected "
      "=> not clearly simple, any other outcome => input not margin-separated. Planarity with a free off-plane displacement; convex classes with a free "
      "extra point and with every other order of a convex quadrilateral under free placement (stored counter-clockwise about the normal), also with an "
      "explicit normal of either sign; simple polygons listed clockwise / counter-clockwise from any start vertex with an explicit normal of either sign; nine radius / "
      "axis / rounding-radius constructors with a free real; duplicates / too few vertices; stored arrays never alias the caller's, caller's arrays unchanged.",
      "reals not floats (A1); margins on orientation products; one free vertex; qhull verdict = exact hull stub",
      "DESIGN.md §6 C15")

claim("C17", "symx+z3",
      "symbolic execution of make_vertices with free family parameters vs exact plane-triple enumeration (QF_LRA); z3-enumerated rational grid and z3-enumerated n in 3..200 through the real constructor; exact algebraic evaluation of the n-gon families",
      "TruncationPlaneShapeFamily.make_vertices with a and c free reals (323+), one free parameter along lines (423) and a free truncation (truncated "
      "tetrahedron): on every parameter cell reached, the returned vertex set equals the harness's own exact enumeration over all plane triples (conditioned "
      "on the exact vertices being 1e-3 apart). get_shape through the real constructor on rational grids incl. edges and corners (grid index enumerated by "
      "z3): vertex set, V-E+F and facet count against the exact intersection. Domain guards with free parameters. RegularNGonFamily and the uniform prism / "
      "antiprism / pyramid / dipyramid families for n with closed-form trigonometry (exact algebraic arithmetic): unit area/volume, first vertex on +x, "
      "centred, equal edges, counts; and the same claims natively (float64, tolerance 1e-9) for every n in 3..200, n enumerated by z3 until unsat.",
      "reals not floats (A1: thresholds / round(6) exact); Family523 geometry not applicable (guards only); exact arithmetic for n in {3,4,5,6,8,10,12}, float64 enumeration for all n in 3..200; path budget on cells",
      "DESIGN.md §6 C17")

claim("C12", "symx",
      "symbolic execution of compute_form_factor_amplitude with a free wave vector (phase algebra over tan-half-angle parameters, complex pairs); identities with independent closed forms decided by z3",
      "Polygon (lattice polygons, both vertex orientations, batches [q], [q,2q], [q,0,-q] incl. a single (1,3) vector), Polyhedron / ConvexPolyhedron "
      "(axis-aligned voxel solids incl. an off-origin box and the non-convex L prism) and Sphere (free radius, lattice centres) form factors with q = (qx,qy,qz) free: every exp(-i.) / sinc the real "
      "code evaluates becomes an exact rational function of t_k = tan(phase_k/2); compared with the vertex-form 2-D Fourier transform and with the closed "
      "form for unions of boxes; F(0) = density*area / volume, F(-q) = conj F(q). Base phases are refined on demand when the code needs finer ones.",
      "reals not floats (A1); values of sin/cos outside (phases are formal); each q component exactly 0 or >= 1e-2 (the isclose band and continuity limits are outside); batch <= 3",
      "DESIGN.md §6 C12")

ALL = ["C%02d" % i for i in range(1, 21)]


def main():
    checks = []
    for pid in ALL:
        if pid not in CLAIMED:
            continue
        engine, technique, text, note, ref = CLAIMED[pid]
        checks.append(dict(
            property_id=pid,
            quick_cmd="bin/check %s --tier quick" % pid,
            thorough_cmd="bin/check %s --tier thorough" % pid,
            evidence_file="evidence/%s.json" % pid,
            replay_cmd_template="bin/check %s --replay {path}" % pid,
            engine=engine,
            level_claimed=dict(category="model_checking", text=text, design_ref=ref),
            level_note=note,
            technique=technique,
        ))
    na = []
    reasons = json.load(open(os.path.join(VERIF, "bin", "not_applicable.json")))
    for pid in ALL:
        if pid not in CLAIMED:
            na.append(dict(property_id=pid, reason=reasons.get(pid, "check not built yet in this round (planned, see DESIGN.md §6)")))
    m = dict(
        version=1,
        setup_cmd="bin/setup.sh",
        hooks=dict(guard="COXETER_VERIF", enable="none needed: checks rebind module globals of the imported coxeter modules at run time; no source hook exists in /repo",
                   baseline_off_cmd="cd /repo && /venv/bin/python -m pytest -ra -q -p no:cacheprovider --timeout=900 --continue-on-collection-errors",
                   source_commits=[], add_only=True),
        engines=[
            dict(name="symx", path="symx/", serves_properties=[p for p in ALL if p in CLAIMED and CLAIMED[p][0] in ("symx", "symx+crosshair")], kind_free_text=E2),
            dict(name="crosshair", path="crosshair/", serves_properties=[p for p in ALL if p in CLAIMED and "crosshair" in CLAIMED[p][0]], kind_free_text=E1),
        ],
        checks=checks,
        notes="Exit codes of bin/check: 0 = no unlisted violation; 1 = VIOLATION lines printed; 2 = harness error. "
              "known_findings.json lists recorded genuine defects (KNOWN-FINDING lines) and repaired ones.",
        not_applicable=na,
    )
    with open(os.path.join(VERIF, "MANIFEST.json"), "w") as f:
        json.dump(m, f, indent=1)
    import jsonschema

    jsonschema.validate(m, json.load(open("/root/.vp/MANIFEST.schema.json")))
    print("MANIFEST.json written: %d checks, %d not_applicable" % (len(checks), len(na)))


if __name__ == "__main__":
    main()
