#!/usr/bin/env python3
"""Regenerate MANIFEST.json from the table below (keeps it schema-valid at all times)."""
import json
import os

VERIF = os.path.dirname(os.path.dirname(os.path.abspath(__file__)))
E2 = "symx (symbolic execution of the real numpy code over the reals; sympy normal forms + z3 QF_NRA)"
E1 = "CrossHair 0.0.110 (symbolic execution of Python with z3)"

# id -> (engine, technique, level text, level note, design ref)
CLAIMED = {}
NOT_YET = {}


def claim(pid, engine, technique, text, note, ref):
    CLAIMED[pid] = (engine, technique, text, note, ref)


claim("C10", "symx",
      "bounded symbolic execution + SMT (z3 QF_NRA) of the real getters; all axis orderings as paths",
      "Every getter of Circle/Ellipse/Sphere/Ellipsoid is executed with all radii, semi-axes and centre components as free reals and PI as a symbol; "
      "each reported measure is compared with the closed form of its defining integral and the solver shows the difference cannot be non-zero on any "
      "path (every ordering of the axes incl. ties). No size bound. Elliptic integrals are opaque function symbols: for perimeter/surface area the "
      "wiring (arguments, coefficients, branch) is decided, not the special-function values. Counterexamples are replayed on the float64 code.",
      "reals not floats (A1); scipy.special as uninterpreted functions with range facts; z3 and sympy trusted; relative axis gaps of 1e-15 outside",
      "DESIGN.md §6 C10")

claim("C04", "symx",
      "bounded symbolic execution + SMT (z3 QF_NRA) of the real Polygon/ConvexPolygon code with free vertex coordinates",
      "Polygon/ConvexPolygon constructors and getters are executed with all 2n in-plane coordinates free (n = 3, 4 quick; 5, 6 thorough), in the xy-plane "
      "and in tilted planes (rational rotation, free offset), default and explicit normals of either sign, both orientations; area, signed area, perimeter, "
      "centroid, planar and polar moments and the inertia tensor are compared with an independent fan-decomposition oracle and the solver shows the "
      "residual cannot be non-zero on any explored path. Bounded: n <= 6, path budget per obligation, alternatives the solver could not refute are counted "
      "in the evidence. Counterexamples are replayed on the float64 code.",
      "reals not floats (A1); kabsch and 2-D qhull replaced by contract stubs; simplicity of the input is a precondition (orientation predicates); z3/sympy trusted",
      "DESIGN.md §6 C04")

claim("C01", "symx",
      "bounded symbolic execution + SMT (z3 QF_NRA) of the real ConvexPolyhedron constructor and measure getters",
      "The real constructor (exact hull stub with several qhull output orders, _combine_simplices, _sort_simplices, sort_faces) and all measure getters are "
      "executed on ten base solids (4-12 vertices, incl. irregular kite/trapezoid facets and coplanar lattice facets) placed by a free scale s>0, a free "
      "translation and rational rotations, with the input vertices in several orders, plus a tetrahedron with all 12 coordinates free; volume, total and "
      "per-face area, centroid, face centroids and the inertia tensor are compared with signed-tetrahedron sums over an independently computed facet list; "
      "z3 shows every residual cannot be non-zero on the explored paths. Bounded: base set, path budget (the sorting code forks on the placement), "
      "unrefuted alternatives are counted in the evidence.",
      "reals not floats (A1); qhull and kabsch as contract stubs; z3/sympy trusted",
      "DESIGN.md §6 C01")
claim("C06", "symx",
      "symbolic execution of the real is_inside with a free query point (piecewise-constant terms); z3 decides impl <=> exact membership for all points",
      "Polygon/ConvexPolygon.is_inside run once per concrete rational polygon (3-12 vertices, convex and non-convex, both orientations, xy-plane and tilted "
      "planes, default/explicit normals, three in-plane kabsch rotations, (3,), (N,3), (N,2) inputs, batches of 3) with the query point free in the polygon's "
      "plane; one QF_LRA query per obligation shows the result equals crossing parity for every point of the plane outside a 1e-3 band around the boundary, "
      "including the measure-zero alignments the winding-number code special-cases. Circle/Ellipse: radius/semi-axes, centre and point all free (QF_NRA).",
      "reals not floats (A1); kabsch contract stub; polygons from a concrete base list; z3 trusted",
      "DESIGN.md §6 C06")

claim("C05", "symx",
      "symbolic execution of the real is_inside with free query points (piecewise-constant terms / concolic paths); z3 decides impl <=> exact membership over all of space",
      "ConvexPolyhedron.is_inside and Polyhedron.is_inside (winding number, real polytri triangulation) run once per concrete rational solid (convex, "
      "non-convex, non-star-shaped, genus 1; rational rotations and offset; (3,), (N,3), batch of 3) with the query point(s) free in R^3: one query per "
      "obligation shows the result equals membership in an independent convex decomposition for every point off the surface, including points sharing "
      "coordinates with vertices. Sphere/Ellipsoid: all parameters and the point free. ConvexSpheropolyhedron.is_inside (branching code incl. nested "
      "ConvexPolyhedron constructions): box cores, free point and rounding radius, concolic path budget, oracle = distance to the box.",
      "reals not floats (A1); qhull/kabsch contract stubs; base-set solids <= 16 vertices; path budget for the spheropolyhedron",
      "DESIGN.md §6 C05")
claim("C08", "symx",
      "symbolic execution of every setter found by reflection with a free real target of either sign; z3 decides read-back, similarity and refusal claims",
      "All ~100 settable properties of the ten classes are enumerated at run time; each setter runs with a free real target v, the code's own guards fork "
      "the paths so v>0 and v<=0 are both covered; claims: read-back equals v, one common positive factor on all vertices/radii/semi-axes, normals and "
      "centres unchanged (translation for centroid/center), ValueError and untouched state for v<=0; NaN produced by sqrt/power of a negative double is "
      "modelled. Curved shapes with all parameters free; polytopes are concrete off-origin tilted base shapes.",
      "reals not floats (A1); NaN targets outside; single semi-axes and rounding radii set one parameter only; miniball modelled for concrete points only",
      "DESIGN.md §6 C08")

claim("C02", "symx",
      "bounded symbolic execution + SMT (z3 QF_NRA) of the real Polyhedron code incl. polytri and per-face ConvexPolygon construction, free placement",
      "Polyhedron constructor, volume, get_face_area (real ConvexPolygon constructor per face), surface_area, centroid (real polytri ear clipping incl. matrix "
      "inverse and thresholds) and inertia_tensor run on L/U/C/arrow prisms with triangulated caps, a frame with a hole, a dented star-shaped hull and Polyhedron "
      "copies of convex solids, placed by a free scale s in [1/4,100], a free translation and rational rotations; compared with signed-tetrahedron sums over a "
      "fan triangulation of the given faces. In the quick tier every alternative of every obligation was refuted (one path covers all placements).",
      "reals not floats (A1); scale range chosen where polytri's absolute thresholds are inactive; kabsch / 2-D qhull contract stubs",
      "DESIGN.md §6 C02")
claim("C03", "symx",
      "symbolic execution of mutation histories with symbolic arguments; every observable compared with a freshly constructed shape; z3 decides the equalities",
      "All setters (reflection) plus diagonalize_inertia (orthogonal matrices by the eigh contract, proper and improper), merge_faces, sort_faces, to_hoomd and a "
      "read-everything step (fills caches) run on base shapes of the six vertex-based classes with free positive targets in [1/10,1000] and free centroids; "
      "histories of depth 1 over the whole alphabet and depth 2 (quick) / 3 (thorough) over a reduced one. Afterwards faces, cycles, plane equations, "
      "neighbours, edges, simplices (triangulation-invariant facts), volume, area, centroid, radii are compared with a shape freshly built by the real "
      "constructor from the current vertices; after an exception the raw state must be unchanged; the orientation of a fixed vertex quadruple must survive "
      "diagonalize_inertia.",
      "reals not floats (A1); eigh/qhull/kabsch/lstsq contract stubs; a mirror finding needs the real eigh to reproduce it; bounded depth and path budget",
      "DESIGN.md §6 C03")

claim("C16", "symx",
      "symbolic execution of every public query (reflection) on shapes with a free translation; state, handed-out arrays and arguments compared as terms; z3 decides the identities",
      "All public properties and query/export methods of the ten classes (~290) are enumerated at run time and executed on base shapes placed by a free "
      "translation; afterwards the raw state, every array handed out before the query and every array argument must be unchanged as symbolic terms, and "
      "repeating the query must give the same answer; ordered pairs of state-touching queries in the thorough tier.",
      "reals not floats (A1); plot/plato excluded; form factors in C12; miniball on symbolic points excluded; contract stubs",
      "DESIGN.md §6 C16")

ALL = ["C%02d" % i for i in range(1, 21)]


def main():
    checks = []
    for pid in ALL:
        if pid not in CLAIMED:
            continue
        engine, technique, text, note, ref = CLAIMED[pid]
        checks.append(dict(
            property_id=pid,
            quick_cmd="bin/check %s --tier quick" % pid,
            thorough_cmd="bin/check %s --tier thorough" % pid,
            evidence_file="evidence/%s.json" % pid,
            replay_cmd_template="bin/check %s --replay {path}" % pid,
            engine=engine,
            level_claimed=dict(category="model_checking", text=text, design_ref=ref),
            level_note=note,
            technique=technique,
        ))
    na = []
    reasons = json.load(open(os.path.join(VERIF, "bin", "not_applicable.json")))
    for pid in ALL:
        if pid not in CLAIMED:
            na.append(dict(property_id=pid, reason=reasons.get(pid, "check not built yet in this round (planned, see DESIGN.md §6)")))
    m = dict(
        version=1,
        setup_cmd="bin/setup.sh",
        hooks=dict(guard="COXETER_VERIF", enable="none needed: checks rebind module globals of the imported coxeter modules at run time; no source hook exists in /repo",
                   baseline_off_cmd="cd /repo && /venv/bin/python -m pytest -ra -q -p no:cacheprovider --timeout=900 --continue-on-collection-errors",
                   source_commits=[], add_only=True),
        engines=[
            dict(name="symx", path="symx/", serves_properties=[p for p in ALL if p in CLAIMED and CLAIMED[p][0] in ("symx", "symx+crosshair")], kind_free_text=E2),
            dict(name="crosshair", path="crosshair/", serves_properties=[p for p in ALL if p in CLAIMED and "crosshair" in CLAIMED[p][0]], kind_free_text=E1),
        ],
        checks=checks,
        notes="Exit codes of bin/check: 0 = no unlisted violation; 1 = VIOLATION lines printed; 2 = harness error. "
              "known_findings.json lists recorded genuine defects (KNOWN-FINDING lines) and repaired ones.",
        not_applicable=na,
    )
    with open(os.path.join(VERIF, "MANIFEST.json"), "w") as f:
        json.dump(m, f, indent=1)
    import jsonschema

    jsonschema.validate(m, json.load(open("/root/.vp/MANIFEST.schema.json")))
    print("MANIFEST.json written: %d checks, %d not_applicable" % (len(checks), len(na)))


if __name__ == "__main__":
    main()
