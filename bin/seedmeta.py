#!/usr/bin/env python3
"""Write seeded2/*/meta.json and seeded3/*/meta.json from the table below (kept here so that it is versioned with the seeds)."""
import json
import os

ROOT = os.path.dirname(os.path.dirname(os.path.abspath(__file__)))
ORIGIN2 = "independent sub-agent given only the property text, a steer to avoid the most obvious regression, and a scratch worktree"
ORIGIN3 = "independent sub-agent given only the property text, the one-line descriptions of the earlier seeds to avoid, and a scratch worktree"
# wave, id: (what, needs_to_manifest, checks that catch it, note)
T = {
 (2, "C01"): ("ConvexPolyhedron caches per-simplex areas in _find_simplex_equations and get_face_area reads the cache; _rescale never refreshes it",
              "a size setter followed by get_face_area / surface_area on the same object", ["C03"],
              "not visible to C01 (construct, then query): the clause it breaks is C03's 'no stored quantity lags behind the geometry' (same:face_areas)"),
 (2, "C02"): ("Polyhedron.inertia_tensor computes about the vertex mean but translates with the centre-of-mass offset", "general Polyhedron whose vertex mean differs from its centroid, off-origin", ["C02"], ""),
 (2, "C03"): ("ConvexPolyhedron.centroid setter shifts _centroid in place; to_hoomd's saved old_centroid aliases it, so to_hoomd leaves the shape at the origin",
              "off-origin ConvexPolyhedron / ConvexSpheropolyhedron and a to_hoomd() call", ["C03", "C16"],
              "first missed by C03 (the moved shape is coherent with its own current vertices) and caught by C16; C03 then gained 'to_hoomd leaves the shape in place'"),
 (2, "C04"): ("Polygon.inertia_tensor reads the centroid after the alignment rotation and combines it with the tensor rotated back", "normal not +z and centroid off-origin along two axes", ["C04"], ""),
 (2, "C05"): ("ConvexSpheropolyhedron.is_inside check_face projects onto un-normalised edges", "nearest core feature is an edge interior, edge length != 1", ["C05"], ""),
 (2, "C06"): ("Polygon.is_inside skips the rotation for (N,2) points while the vertices are still rotated", "(N,2) points, stored normal -z, polygon not mirror-symmetric in x", ["C06"], ""),
 (2, "C07"): ("sort_faces flips faces by swapping entries 1 and -1 (right only for triangles and quads)", "faces of degree >= 5 that need flipping", ["C07"], ""),
 (2, "C08"): ("Polygon.area setter divides by signed_area: positive targets are refused (nan scale -> ValueError)", "plain Polygon listed clockwise about its normal", ["C08"],
              "first missed (no clockwise polygon among the base shapes), caught after Polygon_cw / Polygon_reflex_first were added - which also exposed the incircle defect repaired in /repo 9bde29f"),
 (2, "C09"): ("Polygon.circumcircle plane row uses dot(n, C) = 0 in absolute instead of relative coordinates", "polygon whose plane does not pass through the origin", ["C09"], ""),
 (2, "C10"): ("Ellipsoid.surface_area takes the exact-sphere shortcut when isclose(a, c)", "all three semi-axes within numpy's isclose window but not identical", ["C10"], ""),
 (2, "C11"): ("ConvexPolyhedron.mean_curvature vectorised as dot(edge_lengths, pi - phis): lengths (sorted by vertex pair) paired with angles (face-pair order)", "at least two distinct edge lengths and two distinct dihedral angles", ["C11"],
              "same idea as the first-wave C11 seed, reached independently"),
 (2, "C12"): ("Polyhedron form factor uses abs(eqn[3]) as the face offset", "a face plane with the origin on its outer side (off-origin or non-convex solid)", ["C12"], ""),
 (2, "C13"): ("Polygon.incircle plane row right-hand side replaced by 0", "polygon whose plane does not pass through the origin", ["C13"],
              "first missed (polygons only in planes through the origin), caught after free z offsets / a tilted lifted triangle were added"),
 (2, "C14"): ("ConvexPolygon.distance_to_surface horizontal-edge branch uses p1[i,0] instead of the y intercept", "an exactly horizontal edge with |x| != |y| at its first vertex", ["C14"], ""),
 (2, "C15"): ("Polygon.__init__ drops np.abs from the orthogonality test: an explicit normal antiparallel to the first-three-vertex normal is rejected", "explicit normal= opposite to the first-three-vertex normal", ["C15"],
              "first missed (C15 never passed normal=), caught after the explicit-normal obligations were added; patch rebased after /repo 0618ed6 touched the same lines"),
 (2, "C16"): ("to_stl no longer deep-copies: the shift-to-positive-octant loop moves the caller's ConvexPolyhedron", "STL export of a ConvexPolyhedron with a negative coordinate", ["C16"], ""),
 (2, "C17"): ("_make_ngon uses np.deg2rad(np.arange(0, 360, 360/n)): n+1 vertices for n = 161, 175 (float step)", "n = 161 or 175", ["C17"],
              "first missed (exact arithmetic covered n <= 12 only; and a shim error), caught after every n in 3..200 was enumerated with native runs"),
 (2, "C18"): ("TabulatedGSDShapeFamily.names sorted while __iter__ keeps file order", "a family whose JSON is not alphabetical; positional comparison with names", ["C18"], ""),
 (2, "C19"): ("Polygon.__repr__ omits a +z normal, eval(repr) recomputes it from the first three vertices", "plain Polygon in z=const with stored normal +z and clockwise / reflex first corner", ["C19"],
              "first missed, caught after polygons whose stored normal differs from the first-three-vertex normal were added"),
 (2, "C20"): ("to_stl with a shallow copy shifts the caller's cached centroid", "STL export of a ConvexPolyhedron with a negative coordinate, then any centroid-based query", ["C20", "C16"],
              "first missed by C20 (unchanged = vertices and faces only), caught after the whole stored state and derived answers were compared"),
 (3, "C01"): ("ConvexPolyhedron._compute_inertia_tensor(centered=True) shifts by the vertex mean while inertia_tensor translates with the centroid", "centroid != vertex mean (pyramids, cupolae, irregular hulls)", ["C01"], ""),
 (3, "C02"): ("Polyhedron.get_face_area(faces) indexes self.faces[i] instead of self.faces[face_index]", "general Polyhedron, a non-identity face selection, unequal face areas", ["C02"], ""),
 (3, "C03"): ("ConvexPolyhedron caches _simplex_areas on the first get_face_area / face_centroids call; _rescale never refreshes them", "query, then a rescaling setter, then get_face_area on the same object", ["C03"], ""),
 (3, "C04"): ("Polygon.__init__ stores the vertex-derived normal with sign(abs(dot)) = +1, whatever direction the caller asked for", "explicit normal anti-parallel to cross(v2 - v1, v0 - v1)", ["C04", "C15"],
              "first missed by C04 (its oracle read the normal back from the polygon), caught after 'normal = requested' was claimed"),
 (3, "C05"): ("Polyhedron.is_inside: v1sign takes its y tie-break from vertex 0", "general Polyhedron and a query point sharing an exact x coordinate with a vertex", ["C05"], ""),
 (3, "C06"): ("Circle.is_inside subtracts the centre from the caller's float64 array in place", "off-origin circle, points passed as a float64 ndarray and used again", ["C06", "C16"],
              "first missed by C06 (fresh points per call), caught after 'caller's points unchanged' and 'same array again' were added"),
 (3, "C07"): ("Polyhedron.edges drops the closing edge of every face (zip(face[:-1], face[1:]))", "general Polyhedron with a face whose last label is smaller than its first", ["C07"], ""),
 (3, "C08"): ("Polygon._rescale scales only x and y of the stored Nx3 vertices", "polygon in a tilted plane and any size setter", ["C08"], ""),
 (3, "C09"): ("Polyhedron.is_inside: v2sign takes its y tie-break from vertex 1", "general Polyhedron and a query point sharing an exact x coordinate with a vertex", ["C05"],
              "C09's containment obligations use query points in general position and stay quiet; the wrong membership itself is decided by C05 (free query point, ties included)"),
 (3, "C10"): ("translate_inertia_tensor returns early when isclose(|d|^2, 0): centres within 1e-4 of the origin are treated as centred", "small shape (1e-3..1e-2) with a centre off the origin by less than 1e-4", ["C10"],
              "first only 'unreproduced' (the solver's witness differed by less than float noise at unit scale); caught after claim_eq started asking for a witness with a relative difference above 1e-5 and replaying it purely relatively"),
 (3, "C11"): ("ConvexSpheropolyhedron.volume / surface_area return the core's values when isclose(radius, 0)", "rounding radius positive but <= 1e-8 (small-scale shapes)", ["C11"],
              "caught with a witness at scale 1/1024 and radius 2^-27 (significant-witness refinement of claim_eq)"),
 (3, "C12"): ("Sphere form factor applies the position phase only if all centre coordinates are non-zero (np.all for np.any)", "sphere centred on a coordinate axis or plane, off the origin", ["C12"],
              "first missed (centres only at the origin and in general position), caught after axis / plane centres were added"),
 (3, "C13"): ("ConvexPolygon.maximal_centered_bounded_circle builds edges with np.diff: the closing edge is left out", "the closing edge (last -> first vertex) is strictly the nearest to the centroid", ["C13"],
              "first missed, caught after start-vertex rotations made every edge the closing edge"),
 (3, "C14"): ("Ellipse.distance_to_surface rewritten in the polar form with e = eccentricity and b = min(a, b)", "ellipse taller than wide (a < b)", ["C14"], ""),
 (3, "C15"): ("planarity test np.allclose(vertices @ normal, d, atol=planar_tolerance): absolute instead of relative tolerance", "polygon of diameter <= 1e-3 with a vertex off-plane by more than 1 % of its size", ["C15"],
              "first missed (planarity obligation at one fixed size), caught after scale and offset became free"),
 (3, "C16"): ("Polygon.compute_form_factor_amplitude orients self.normal in place (normal *= sign(signed_area))", "plain Polygon listed clockwise about its normal, then a form-factor query", ["C16"],
              "first missed (form factor was skipped as 'covered by C12', no clockwise polygon), caught after the query was added with uninterpreted trigonometry and clockwise polygon kinds"),
 (3, "C17"): ("TruncatedTetrahedronFamily.get_shape passes (c, 1) instead of (1, c): the point-inverted solid", "truncation < 1 and an orientation-sensitive comparison", ["C17"], ""),
 (3, "C18"): ("Polyhedron.edges deduplicates via i*stride + j with stride = num_faces + 1: two edges of the Truncated Dodecahedron collide", "more vertices than faces + 1 and a colliding pair of edges", ["C18"],
              "first missed (edge counts were derived from the faces only), caught after the shape's own edge list was compared with the face edges"),
 (3, "C19"): ("Polyhedron.to_hoomd skips centring unless all centroid components are non-zero (np.all for np.any)", "off-origin polyhedron with a zero centroid component", ["C19"], ""),
 (3, "C20"): ("to_vtk declares the POLYGONS size with the vertex count instead of the face count", "VTK export of a polyhedron with V != F", ["C20"], ""),
 (4, "C01"): ("ConvexPolyhedron.__init__ uses np.asarray: a float64 input array becomes the stored vertex buffer", "float64 ndarray input shared with the caller or another shape, then an in-place setter on one owner", ["C15"],
              "the clause it breaks is C15's 'a constructor never stores the caller's arrays' (vertices_share_no_memory); C01's construct-and-read obligations stay exact"),
 (4, "C02"): ("polytri.triangulate skips 'numerically coincident' vertices with np.allclose (rtol relative to the coordinates)", "general Polyhedron at an offset >= 1e5 times a face edge", ["C02"], "witness found by the solver at offsets of about 2e5"),
 (4, "C03"): ("Polyhedron.diagonalize_inertia rotates the stored normals with principal_axes instead of the handedness-corrected rotation", "general Polyhedron and an eigh result with determinant -1", ["C03"],
              "first reported as a harness error only (the real eigh differs from the harness's matrix at the replay), a VIOLATION after the eigh environment was imposed on the float replay as well"),
 (4, "C04"): ("planar_moments_inertia takes abs of the per-edge weights of I_xy", "polygon not star-shaped from the origin (off-origin or U-shaped)", ["C04"], ""),
 (4, "C05"): ("ConvexPolyhedron.is_inside accepts isclose(n.x, -d) with rtol relative to the plane offset", "query point just outside a face, within 1e-5 |d|", ["C05"], ""),
 (4, "C06"): ("Polygon.is_inside caches the aligned vertices and rotation, keyed on the identity of the vertex array that mutators update in place", "query, then move / resize the polygon, then query again", ["C03"],
              "not visible to C06 (fresh polygon per query): it is C03's clause (stored quantity lagging behind); first missed there too, caught after containment became a C03 observable with observe-then-mutate histories for polygons"),
 (4, "C07"): ("merge_faces compares normals up to sign but offsets without it: oppositely oriented coplanar neighbours are not merged", "mixed-orientation triangulated input, face plane off the origin", ["C07"], ""),
 (4, "C08"): ("ConvexPolyhedron._rescale guard 'not scale > 0' rewritten as 'scale <= 0': NaN factors pass", "negative surface_area target (sqrt of a negative) or a NaN target", ["C08"], ""),
 (4, "C09"): ("Polygon.is_inside rotates the query points with R instead of R^T", "polygon in a tilted plane with a non-symmetric alignment rotation", ["C09"],
              "first 'unreproduced' (at the path's sample the float code is right by coincidence), caught after a violated claim was given up to two more witnesses far from the first"),
 (4, "C10"): ("Ellipse.eccentricity becomes a cached_property: stale after a = / b =", "read eccentricity / perimeter / iq, assign a or b, read again", ["C08"],
              "first missed (C10 constructs and reads; C08 only looked at the raw parameters), caught after C08 compared every getter of a curved shape with a freshly built one after each setter"),
 (4, "C11"): ("spheropolyhedron wedge angles from arcsin(|n_i x n_j|): wrong for acute dihedrals", "core with a dihedral angle below 90 degrees and r > 0", ["C11"],
              "first a silent pass: np.arcsin was missing from the shim and the model-only exception counted as 'unreproduced'; now arcsin is modelled (pi/2 - arccos) and a model-only exception is a harness error"),
 (4, "C12"): ("Polygon.__init__ stores the caller's normal un-normalised", "explicit normal of length != 1, then a form factor", ["C15"], "caught by C15 'normal = requested' (unit); C12's polygons use default normals"),
 (4, "C13"): ("Ellipsoid.maximal_bounded_sphere uses min(a, b)", "c strictly smallest", ["C13"], ""),
 (4, "C14"): ("spheropolygon: |v12| taken as roll(|v32|, -1) instead of roll(.., 1)", "core whose edge-length sequence is not invariant under a shift by two", ["C14"], ""),
 (4, "C15"): ("duplicate-vertex test narrowed to cyclic neighbours", "a point listed twice at non-adjacent positions (outline touching itself at a vertex)", ["C15"], ""),
 (4, "C16"): ("ConvexPolygon.distance_to_surface wraps the caller's float64 angle array in place (np.asarray + np.mod(out=))", "float64 ndarray of angles with a value outside [0, 2 pi)", ["C16"],
              "caught because the C16 query passes an angle outside [0, 2 pi) (-3 pi / 4, added in this round when pi/2 was replaced)"),
 (4, "C17"): ("Family523.get_shape upper bound on a uses S (golden ratio) instead of s", "a in (1.382, 3.618]", ["C17"], ""),
 (4, "C18"): ("ConvexPolyhedron.sort_faces keeps a face whose index order turns left at every corner (also true of pentagrams)", "a face with >= 5 vertices whose ascending-index order is a star", ["C18"], ""),
 (4, "C19"): ("ConvexSpheropolyhedron.to_hoomd centres the vertices on the vertex mean", "core whose vertex mean differs from its centroid", ["C19"],
              "first missed (the base spheropolyhedron had a box core: vertex mean = centroid), caught after the base shape became a square pyramid"),
 (4, "C20"): ("to_x3d 'winding guard' reverses faces whose plane has the origin on the outer side", "X3D / HTML export of a polyhedron that does not contain the origin", ["C20"], ""),
 (5, "C01"): ("centred inertia tensor: entries with |x| <= 1e-8 (np.isclose to 0) set to exactly 0 before the parallel-axis shift", "needle-like or small shapes (tensor entries below 1e-8)", ["C01"], "witness with significant relative difference found by the solver on the free tetrahedron"),
 (5, "C02"): ("Polyhedron memoises its surface triangulation; dropped in _find_equations but not in _rescale", "read centroid / inertia, resize, read again (plain Polyhedron)", ["C03"], "C02 constructs and reads; the stale cache is C03's clause (observe+volume history)"),
 (5, "C04"): ("Polygon.perimeter with np.hypot of the x and y components of the edges (z dropped)", "polygon not parallel to the xy-plane", ["C04"], ""),
 (5, "C05"): ("Ellipsoid.is_inside subtracts the centroid from the caller's array in place", "off-origin ellipsoid, float64 points reused", ["C05"], "caught by the 'same array again' claims added after the third wave"),
 (5, "C07"): ("neighbour search pre-filter with int64 bit masks (1 << index vanishes for index >= 64)", "more than 64 vertices", ["C07"],
              "first missed (symbolic obligations stop at 12 vertices), caught after every tabulated solid's structure was compared with an independent facet enumeration"),
 (5, "C09"): ("spheropolyhedron is_inside: projection clamped to [0, 1] instead of [0, edge length]", "edges shorter than 1 or longer than 2 and a point in an edge-rounding region", ["C05"],
              "C09's probes are not in edge regions; exact membership (C05, free query point) decides it"),
 (5, "C11"): ("spheropolyhedron edge-wedge sum as cached_property, not dropped by _rescale", "radius > 0, read volume / area, rescale, read again", ["C03"], "C03 depth-1 (the setter reads the old value itself)"),
 (5, "C12"): ("Polyhedron memoises per-face Polygon objects for the form factor; not dropped by _rescale", "evaluate, resize, evaluate", ["C12"],
              "first missed, then inconclusive (the claim_eq refinement squared very large terms: now size-guarded), caught by the evaluate-resize-evaluate obligations"),
 (5, "C13"): ("minimal_bounding_sphere returns the circumsphere when one exists", "cospherical vertices with the circumcentre outside the body (flat tetrahedron, obtuse prism)", ["C13"],
              "first missed (only necessary conditions were claimed), caught after the returned ball was compared with an exact brute-force smallest enclosing ball"),
 (5, "C19"): ("from_gsd_type_shapes cuts polygon vertices to 2-D", "polygon with a non-zero z component", ["C19"], ""),
}
for (wave, pid), (what, needs, checks, note) in sorted(T.items()):
    d = os.path.join(ROOT, "seeded%d" % wave, pid)
    if not os.path.isdir(d):
        continue
    old = {}
    if os.path.exists(os.path.join(d, "meta.json")):
        old = json.load(open(os.path.join(d, "meta.json")))
    m = dict(property=pid, wave=wave, origin=ORIGIN2 if wave == 2 else ORIGIN3 + (" (fourth / fifth wave: also hints at kinds of mistake and untouched clauses)" if wave >= 4 else ""), what=what, needs_to_manifest=needs, checks=checks,
             detected_by="; ".join("bin/check %s --tier quick (exit 1 with the patch, exit 0 without)" % c for c in checks), note=note,
             validated=old.get("validated"))
    v = "/tmp/valq_seeded%d_%s.json" % (wave, pid)
    if os.path.exists(v):
        try:
            m["validated"] = json.load(open(v))
            m["validated"]["how"] = "bin/validate_seed.sh: scratch worktree of /repo HEAD; demo.py without the patch (rc 0), with the patch (rc != 0), full test-suite with the patch (tests failing in the parallel run are re-run alone: hypothesis deadlines flake under load)"
        except Exception:
            pass
    json.dump(m, open(os.path.join(d, "meta.json"), "w"), indent=1)
    print(wave, pid, "validated" if m["validated"] else "-")
