#!/bin/bash
# Run every seeded change against the quick check of its property; table to seeded/RESULTS.md
cd "$(dirname "$0")/.."
OUT=seeded/RESULTS.md
echo "# Seeded changes vs. checks (bin/seedall.sh, /repo HEAD $(git -C /repo rev-parse --short HEAD), $(date -u +%FT%TZ))" > $OUT
echo "" >> $OUT
echo "| seed | check | exit code with the patch | first violation line |" >> $OUT
echo "|---|---|---|---|" >> $OUT
for d in seeded/C*/; do
  id=$(basename $d)
  res=$(LINES_MAX=400 bin/seedrun.sh /verif/$d/patch.diff $id 2>&1 | grep -v '^WARNING')
  rc=$(echo "$res" | grep -o 'rc=[0-9]*' | tail -1)
  v=$(echo "$res" | grep -A1 '^VIOLATION' | sed -n 2p | cut -c1-160 | tr '|' '/')
  echo "| $id | bin/check $id --tier quick | $rc | $v |" >> $OUT
  echo "$id $rc"
done
git -C /repo status --short | head -2
