#!/bin/bash
# Run every seeded change (all waves) against the quick check(s) recorded in its meta.json; table to seeded/RESULTS.md.
# Each patch is applied to a scratch worktree of /repo's HEAD (bin/seedrun.sh): /repo and evidence/ are not touched.
cd "$(dirname "$0")/.."
OUT=seeded/RESULTS.md
echo "# Seeded changes vs. checks (bin/seedall.sh, /repo HEAD $(git -C /repo rev-parse --short HEAD), $(date -u +%FT%TZ))" > $OUT
echo "" >> $OUT
echo "| wave | seed | check | exit code with the patch | first violation line |" >> $OUT
echo "|---|---|---|---|---|" >> $OUT
for w in seeded seeded2 seeded3; do
  for d in $w/C*/; do
    id=$(basename $d)
    checks=$(.venv/bin/python -c "import json,sys; m=json.load(open('$d/meta.json')); print(' '.join(m.get('checks') or [m['property']]))" 2>/dev/null)
    first=$(echo $checks | awk '{print $1}')
    res=$(LINES_MAX=400 bin/seedrun.sh /verif/$d/patch.diff $first 2>&1 | grep -v '^WARNING')
    rc=$(echo "$res" | grep -o 'rc=[0-9]*' | tail -1)
    [ -z "$rc" ] && rc="$(echo "$res" | tail -1 | cut -c1-60)"
    v=$(echo "$res" | grep -A1 '^VIOLATION' | sed -n 2p | cut -c1-160 | tr '|' '/')
    echo "| ${w#seeded}. | $id | bin/check $first --tier quick | $rc | $v |" >> $OUT
    echo "$w/$id $first $rc"
  done
done
git -C /repo status --short | head -2
