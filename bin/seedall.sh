#!/bin/bash
# Run every seeded change (all waves) against the quick check(s) recorded in its meta.json; table to seeded/RESULTS.md.
# Each patch is applied to a scratch worktree of /repo's HEAD (bin/seedrun.sh): /repo and evidence/ are not touched.
# usage: bin/seedall.sh [parallel jobs, default 3]
cd "$(dirname "$0")/.."
J=${1:-3}
TMP=$(mktemp -d /tmp/seedall.XXXXXX)
one() {
  d=$1; TMP=$2
  w=$(dirname $d); id=$(basename $d)
  first=$(.venv/bin/python -c "import json; m=json.load(open('$d/meta.json')); print((m.get('checks') or [m['property']])[0])" 2>/dev/null)
  res=$(LINES_MAX=400 bin/seedrun.sh /verif/$d/patch.diff $first 2>&1 | grep -v '^WARNING')
  rc=$(echo "$res" | grep -o 'rc=[0-9]*' | tail -1)
  [ -z "$rc" ] && rc="$(echo "$res" | tail -1 | cut -c1-60)"
  v=$(echo "$res" | grep -A1 '^VIOLATION' | sed -n 2p | cut -c1-160 | tr '|' '/')
  echo "| ${w#seeded}. | $id | bin/check $first --tier quick | $rc | $v |" > $TMP/$w.$id.row
  echo "$w/$id $first $rc"
}
export -f one
ls -d seeded/C*/ seeded2/C*/ seeded3/C*/ seeded4/C*/ seeded5/C*/ | sed 's:/$::' | xargs -P $J -I{} bash -c "one {} $TMP"
OUT=seeded/RESULTS.md
echo "# Seeded changes vs. checks (bin/seedall.sh, /repo HEAD $(git -C /repo rev-parse --short HEAD), $(date -u +%FT%TZ))" > $OUT
echo "" >> $OUT
echo "Wave 1 = seeded/, wave 2 = seeded2/, wave 3 = seeded3/, wave 4 = seeded4/, wave 5 = seeded5/.  The check is the first entry of the seed's meta.json \`checks\` (the property's own check unless noted there)." >> $OUT
echo "" >> $OUT
echo "| wave | seed | check | exit code with the patch | first violation line |" >> $OUT
echo "|---|---|---|---|---|" >> $OUT
cat $TMP/seeded.*.row $TMP/seeded2.*.row $TMP/seeded3.*.row $TMP/seeded4.*.row $TMP/seeded5.*.row 2>/dev/null | sed 's/^| \. |/| 1 |/; s/^| 2\. |/| 2 |/; s/^| 3\. |/| 3 |/; s/^| 4\. |/| 4 |/; s/^| 5\. |/| 5 |/' >> $OUT
rm -rf $TMP
git -C /repo status --short | head -2
