#!/bin/bash
# Build the overlay venv used by every check (offline, from the wheelhouse).
# Idempotent; safe to call concurrently (flock).
set -e
VERIF="$(cd "$(dirname "$0")/.." && pwd)"
VENV="$VERIF/.venv"
exec 9>"$VERIF/.venv.lock"
flock 9
if [ -x "$VENV/bin/python" ] && "$VENV/bin/python" -c "import z3, sympy, crosshair, mpmath, numpy, coxeter" >/dev/null 2>&1; then
  exit 0
fi
rm -rf "$VENV"
/venv/bin/python -m venv "$VENV" >/dev/null
SP="$("$VENV/bin/python" -c 'import site; print(site.getsitepackages()[0])')"
printf '%s\n' "import site; site.addsitedir('/venv/lib/python3.12/site-packages')" > "$SP/_base_venv.pth"
PIP_NO_INDEX=1 "$VENV/bin/pip" install -q --no-index --find-links /opt/veriftools/wheels \
    z3-solver sympy mpmath crosshair-tool cvc5 jsonschema >/dev/null
"$VENV/bin/python" -c "import z3, sympy, crosshair, mpmath, numpy, coxeter; print('verif venv ready:', z3.get_version_string())"
