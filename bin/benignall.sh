#!/bin/bash
# Every behaviour-preserving patch under benign/ against the checks listed for it in benign/index.json (scratch worktrees,
# like bin/seedrun.sh).  Expected: exit code 0 everywhere.  Table to benign/RESULTS.md.  usage: bin/benignall.sh [jobs, default 2]
cd "$(dirname "$0")/.."
J=${1:-2}
TMP=$(mktemp -d /tmp/benignall.XXXXXX)
one() {
  p=$1; TMP=$2
  checks=$(.venv/bin/python -c "import json; print(' '.join(json.load(open('benign/index.json'))['$p']))")
  res=$(LINES_MAX=400 bin/seedrun.sh /verif/benign/$p $checks 2>&1 | grep -v '^WARNING')
  rcs=$(echo "$res" | grep -o 'rc=[0-9]*' | tr '\n' ' ')
  [ -z "$rcs" ] && rcs="$(echo "$res" | tail -1 | cut -c1-60)"
  bad=$(echo "$res" | grep -E '^(VIOLATION|HARNESS-ERROR)' | head -2 | cut -c1-160 | tr '|\n' '/ ')
  echo "| $p | $checks | $rcs | $bad |" > $TMP/$(echo $p | tr '/' '_').row
  echo "$p :: $checks :: $rcs $bad"
}
export -f one
.venv/bin/python -c "import json; print('\n'.join(json.load(open('benign/index.json'))))" | xargs -P $J -I{} bash -c "one {} $TMP"
OUT=benign/RESULTS.md
echo "# Behaviour-preserving patches vs. checks (bin/benignall.sh, /repo HEAD $(git -C /repo rev-parse --short HEAD), $(date -u +%FT%TZ))" > $OUT
echo "" >> $OUT
echo "Expected everywhere: exit code 0 (no VIOLATION, no harness error)." >> $OUT
echo "" >> $OUT
echo "| patch | checks run | exit codes | violation / harness-error lines |" >> $OUT
echo "|---|---|---|---|" >> $OUT
cat $TMP/*.row >> $OUT
rm -rf $TMP
