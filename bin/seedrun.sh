#!/bin/bash
# usage: seedrun.sh <patch.diff> <ID> [more IDs]
# Apply a seeded change to a scratch worktree of /repo's HEAD and run the checks against that worktree
# (VERIF_REPO) with a scratch evidence directory: neither /repo nor /verif/evidence is touched, so this
# can run while registered checks are running.  The worktree is removed on exit.
PATCH="$(readlink -f "$1")"; shift
TAG="$(basename "$(dirname "$PATCH")")_$$"
WT=/tmp/seedrun_$TAG
EV=/tmp/seedrun_ev_$TAG
git -C /repo worktree add --detach "$WT" HEAD >/dev/null 2>&1 || { echo "worktree failed"; exit 2; }
trap 'cd /; git -C /repo worktree remove --force "$WT" >/dev/null 2>&1; rm -rf "$EV"' EXIT
# the worktree starts from the committed HEAD: carry over uncommitted changes of /repo's working tree, if any
if ! git -C /repo diff --quiet; then git -C /repo diff | git -C "$WT" apply || { echo "cannot carry working-tree changes"; exit 2; }; fi
git -C "$WT" apply "$PATCH" || { echo "patch does not apply"; exit 2; }
mkdir -p "$EV"
for id in "$@"; do
  echo "--- $id with $(basename "$(dirname "$PATCH")")/$(basename "$PATCH") applied"
  VERIF_REPO="$WT" VERIF_EVIDENCE_DIR="$EV" /verif/bin/check $id --tier ${TIER:-quick} ${ONLY:+--only "$ONLY"} 2>&1 | grep -v "^WARNING" | cut -c1-260 | head -${LINES_MAX:-12}
  echo "rc=${PIPESTATUS[0]}"
done
