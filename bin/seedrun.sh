#!/bin/bash
# usage: seedrun.sh <patch.diff> <ID> [more IDs]  -- apply a seeded change to /repo, run the quick checks, undo it.
PATCH="$1"; shift
cd /repo || exit 2
if ! git diff --quiet; then echo "/repo has uncommitted changes"; exit 2; fi
git apply "$PATCH" || { echo "patch does not apply"; exit 2; }
trap 'git -C /repo checkout -- . ' EXIT
for id in "$@"; do
  echo "--- $id with $(basename $(dirname $PATCH)) applied"
  /verif/bin/check $id --tier ${TIER:-quick} 2>&1 | grep -v "^WARNING" | cut -c1-260 | head -${LINES_MAX:-12}
  echo "rc=${PIPESTATUS[0]}"
done
