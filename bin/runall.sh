#!/bin/bash
# Run every claimed check (quick tier by default) on the current /repo tree, sequentially; summary to stdout.
cd "$(dirname "$0")/.."
TIER=${1:-quick}
for id in $(.venv/bin/python -c "import json; print(' '.join(c['property_id'] for c in json.load(open('MANIFEST.json'))['checks']))"); do
  out=$(bin/check $id --tier $TIER 2>&1 | grep -v '^WARNING'); rc=$?
  echo "$out" | grep -E "^(VIOLATION|KNOWN-FINDING|HARNESS-ERROR|$id tier)" | cut -c1-220
done
