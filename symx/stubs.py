"""Contract stubs for the compiled / LAPACK-backed dependencies (assumption A2)."""
import itertools
from fractions import Fraction

import numpy as _np

from . import core
from .core import Sym
from .npshim import sarr, SArr, snp, _det, _plain, _elementwise


def K(x):
    return core.CTX.const(x)


# ----------------------------------------------------------------------------- rowan
class _Mapping:
    @staticmethod
    def kabsch(X, Y):
        """Some proper rotation R with R n = z (n = X[0] unit, Y = [z, -z]).

        R = R_t . R_n:  R_n = explicit Rodrigues rotation taking n to z; R_t = rotation about z
        by the context's in-plane parameter (``ctx.kabsch_t``: None = identity, a pair of
        scalars (c, s) with c*c + s*s = 1 otherwise).
        """
        n = sarr(X[0], copy=False)
        nz = n[2]
        if bool(nz == -1):
            Rn = sarr([[1, 0, 0], [0, -1, 0], [0, 0, -1]])
        elif bool(nz == 1):
            Rn = sarr([[1, 0, 0], [0, 1, 0], [0, 0, 1]])
        else:
            v = [n[1], -n[0], K(0)]
            vx = sarr([[K(0), -v[2], v[1]], [v[2], K(0), -v[0]], [-v[1], v[0], K(0)]])
            Rn = snp.eye(3) + vx + snp.dot(vx, vx) / (1 + nz)
        cs = getattr(core.CTX, "kabsch_t", None)
        if cs is not None:
            c, s = cs
            Rt = sarr([[c, -s, K(0)], [s, c, K(0)], [K(0), K(0), K(1)]])
            Rn = snp.dot(Rt, Rn)
        return Rn, sarr([0, 0, 0])


def _qmul(a, b):
    aw, ax, ay, az = a
    bw, bx, by, bz = b
    return [aw * bw - ax * bx - ay * by - az * bz,
            aw * bx + ax * bw + ay * bz - az * by,
            aw * by - ax * bz + ay * bw + az * bx,
            aw * bz + ax * by - ay * bx + az * bw]


class RowanStub:
    """rowan by its definitions (exact quaternion algebra).  ``rowan.random.rand`` is part of the environment:
    it returns the next entry of ``ctx.random_quats`` (harness-chosen rational unit quaternions) - any unit
    quaternion is a possible return value of the real function."""

    mapping = _Mapping

    class random:
        @staticmethod
        def rand(*args):
            qs = getattr(core.CTX, "random_quats", None)
            if not qs:
                raise core.Abort("rowan.random.rand reached (miniball retry path) without an environment model")
            i = getattr(core.CTX, "random_calls", 0)
            core.CTX.random_calls = i + 1
            return sarr([K(x) for x in qs[i % len(qs)]])

    @staticmethod
    def rotate(q, v):
        qa = sarr(q, copy=False).view(_np.ndarray)
        if qa.ndim != 1:
            if qa.shape[:-1] != (1,):
                raise core.Abort("rowan.rotate with an array of quaternions")
            qa = qa.reshape(4)
        qq = [Sym._co(core.force(x)) for x in qa]
        qc = [qq[0], -qq[1], -qq[2], -qq[3]]
        va = sarr(v, copy=False).view(_np.ndarray)
        flat = va.reshape(-1, 3)
        out = _np.empty(flat.shape, dtype=object)
        for i, row in enumerate(flat):
            r = _qmul(qq, _qmul([K(0), row[0], row[1], row[2]], qc))
            out[i] = r[1:]
        return out.reshape(va.shape).view(SArr)

    @staticmethod
    def conjugate(q):
        c = sarr(q)  # a copy, like the library
        c[..., 1:] *= -1
        return c


# ----------------------------------------------------------------------------- qhull
def _orient2(p, q, r):
    return (q[0] - p[0]) * (r[1] - p[1]) - (q[1] - p[1]) * (r[0] - p[0])


class ConvexHullStub:
    """Exact convex hull by orientation predicates decided on the current path.

    2-D: ``vertices`` = extreme points in counter-clockwise order (qhull's documented order).
    3-D: ``simplices`` (triangulated facets), ``equations`` (unit outward normal, offset),
    ``neighbors`` (neighbors[i][j] = simplex opposite vertex j), ``vertices``, ``volume``,
    ``area``, ``min_bound``, ``max_bound``.  The order of the simplex list and of the vertices
    inside a simplex is not part of qhull's contract: ``ctx.hull_variant`` (an int) selects a
    deterministic permutation / orientation pattern.
    """

    def __init__(self, points, **kw):
        pts = sarr(points, copy=False)
        self.points = pts
        self.ndim = pts.shape[1]
        self.npoints = len(pts)
        if self.ndim == 2:
            self._hull2(pts.view(_np.ndarray))
        elif self.ndim == 3:
            self._hull3(pts.view(_np.ndarray))
        else:
            raise NotImplementedError

    # ---- 2-D gift wrapping
    def _hull2(self, P):
        n = len(P)
        start = 0
        for i in range(1, n):
            if bool(P[i][0] < P[start][0]) or (bool(P[i][0] == P[start][0]) and bool(P[i][1] < P[start][1])):
                start = i
        hull = [start]
        cur = start
        while True:
            cand = None
            for j in range(n):
                if j == cur:
                    continue
                if cand is None:
                    cand = j
                    continue
                o = _orient2(P[cur], P[cand], P[j])
                if bool(o < 0):
                    cand = j  # j is to the right of cur->cand: more clockwise
                elif bool(o == 0):
                    # collinear: keep the farther one
                    dc = (P[cand][0] - P[cur][0]) ** 2 + (P[cand][1] - P[cur][1]) ** 2
                    dj = (P[j][0] - P[cur][0]) ** 2 + (P[j][1] - P[cur][1]) ** 2
                    if bool(dj > dc):
                        cand = j
            if cand == start or cand is None or len(hull) > n:
                break
            hull.append(cand)
            cur = cand
        self.vertices = _np.array(hull)
        self.simplices = _np.array([[hull[i], hull[(i + 1) % len(hull)]] for i in range(len(hull))])

    # ---- 3-D: facets from supporting triples
    def _hull3(self, P):
        n = len(P)
        idx = list(range(n))

        def plane(i, j, k):
            a, b, c = P[i], P[j], P[k]
            u = [b[t] - a[t] for t in range(3)]
            v = [c[t] - a[t] for t in range(3)]
            N = [u[1] * v[2] - u[2] * v[1], u[2] * v[0] - u[0] * v[2], u[0] * v[1] - u[1] * v[0]]
            return N, a

        def side(N, a, m):
            return N[0] * (P[m][0] - a[0]) + N[1] * (P[m][1] - a[1]) + N[2] * (P[m][2] - a[2])

        used = set()
        facets = []  # (outward N, point a, sorted member indices)
        for i, j, k in itertools.combinations(idx, 3):
            if any({i, j, k} <= f[2] for f in facets):
                continue
            N, a = plane(i, j, k)
            if bool(N[0] == 0) and bool(N[1] == 0) and bool(N[2] == 0):
                continue
            pos = neg = False
            members = {i, j, k}
            for m in idx:
                if m in (i, j, k):
                    continue
                s = side(N, a, m)
                if bool(s > 0):
                    pos = True
                elif bool(s < 0):
                    neg = True
                else:
                    members.add(m)
                if pos and neg:
                    break
            if pos and neg:
                continue
            if not pos and not neg:
                # qhull's documented behaviour for a flat point set (no full-dimensional initial simplex)
                from scipy.spatial import QhullError

                raise QhullError("QH6154 Qhull precision error: Initial simplex is flat (contract stub: all input points are coplanar)")
            if pos:
                N = [-x for x in N]
            facets.append((N, a, frozenset(members)))
        simplices, eqs = [], []
        variant = int(getattr(core.CTX, "hull_variant", 0))
        on_hull = set()
        for N, a, members in facets:
            norm = (N[0] * N[0] + N[1] * N[1] + N[2] * N[2]).sqrt()
            nu = [x / norm for x in N]
            off = -(nu[0] * a[0] + nu[1] * a[1] + nu[2] * a[2])
            cyc = self._order_facet(P, sorted(members), N)
            on_hull.update(cyc)
            # fan triangulation; the apex of the fan is a degree of freedom of qhull's Qt
            r = (variant // 7) % len(cyc)
            cyc = cyc[r:] + cyc[:r]
            for t in range(1, len(cyc) - 1):
                simplices.append([cyc[0], cyc[t], cyc[t + 1]])
                eqs.append(nu + [off])
        # qhull orders neither the list nor the vertices inside a simplex
        order = list(range(len(simplices)))
        if variant % 7 == 1:
            order.reverse()
        elif variant % 7 >= 2:
            rot = (variant % 7) * 3 % max(1, len(order))
            order = order[rot:] + order[:rot]
        simplices = [simplices[o] for o in order]
        eqs = [eqs[o] for o in order]
        for t, s in enumerate(simplices):
            pat = (variant * 2654435761 + t * 40503) % 6
            perms = [(0, 1, 2), (1, 2, 0), (2, 0, 1), (0, 2, 1), (2, 1, 0), (1, 0, 2)]
            if variant:
                simplices[t] = [s[q] for q in perms[pat]]
        verts = sorted(on_hull)
        self.vertices = _np.array(verts)
        self.simplices = _np.array(simplices)
        self.equations = sarr(eqs)
        nb = []
        for t, s in enumerate(simplices):
            row = []
            for q in range(3):
                e = {s[(q + 1) % 3], s[(q + 2) % 3]}
                other = [u for u, s2 in enumerate(simplices) if u != t and e <= set(s2)]
                row.append(other[0] if other else -1)
            nb.append(row)
        self.neighbors = _np.array(nb)
        # volume and area (exact)
        vol = K(0)
        area = K(0)
        for (N, a, members), _ in zip(facets, facets):
            pass
        c0 = P[verts[0]]
        for s, e in zip(simplices, eqs):
            a, b, c = P[s[0]], P[s[1]], P[s[2]]
            u = [b[t] - a[t] for t in range(3)]
            v = [c[t] - a[t] for t in range(3)]
            N = [u[1] * v[2] - u[2] * v[1], u[2] * v[0] - u[0] * v[2], u[0] * v[1] - u[1] * v[0]]
            tri_area = (N[0] * N[0] + N[1] * N[1] + N[2] * N[2]).sqrt() / 2
            area = area + tri_area
            h = -(e[0] * c0[0] + e[1] * c0[1] + e[2] * c0[2] + e[3])  # distance of c0 below the facet plane
            vol = vol + tri_area * h / 3
        self.volume = vol
        self.area = area
        self.min_bound = sarr([snp.min(self.points[:, t]) for t in range(3)])
        self.max_bound = sarr([snp.max(self.points[:, t]) for t in range(3)])

    @staticmethod
    def _order_facet(P, members, N):
        """Members of a facet in counter-clockwise order seen from outside (along N)."""
        if len(members) == 3:
            i, j, k = members
            a, b, c = P[i], P[j], P[k]
            u = [b[t] - a[t] for t in range(3)]
            v = [c[t] - a[t] for t in range(3)]
            M = [u[1] * v[2] - u[2] * v[1], u[2] * v[0] - u[0] * v[2], u[0] * v[1] - u[1] * v[0]]
            d = M[0] * N[0] + M[1] * N[1] + M[2] * N[2]
            return [i, j, k] if bool(d > 0) else [i, k, j]
        # gift wrapping inside the plane using the sign of (q - p) x (r - p) . N
        def orient(p, q, r):
            u = [P[q][t] - P[p][t] for t in range(3)]
            v = [P[r][t] - P[p][t] for t in range(3)]
            M = [u[1] * v[2] - u[2] * v[1], u[2] * v[0] - u[0] * v[2], u[0] * v[1] - u[1] * v[0]]
            return M[0] * N[0] + M[1] * N[1] + M[2] * N[2]

        start = members[0]
        cyc = [start]
        cur = start
        while True:
            cand = None
            for j in members:
                if j == cur:
                    continue
                if cand is None:
                    cand = j
                    continue
                if bool(orient(cur, cand, j) < 0):
                    cand = j
            if cand == start or len(cyc) > len(members):
                break
            cyc.append(cand)
            cur = cand
        # members not on the cycle lie inside the facet (or on its edges): they are not hull vertices
        return cyc


# ----------------------------------------------------------------------------- LAPACK
def lstsq(a, b):
    """Exact least squares for full column rank (normal equations)."""
    A = sarr(a, copy=False)
    bb = sarr(b, copy=False)
    m, n = A.shape
    At = A.T
    G = snp.dot(At, A)
    d = _det(G.view(_np.ndarray))
    if bool(d == 0):
        raise core.Abort("rank-deficient least squares (minimum-norm branch not modelled)")
    x = snp.linalg.solve(G, snp.dot(At, bb))
    if m > n:
        r = snp.dot(A, x) - bb
        resid = sarr([snp.dot(r, r)])
    else:
        resid = sarr([])
    return x, resid, n, None


def eigh(m):
    """Eigen-decomposition contract: an orthogonal matrix chosen by the harness (ctx.eigh_Q)."""
    Q = getattr(core.CTX, "eigh_Q", None)
    if Q is None:
        raise core.Abort("np.linalg.eigh reached without a harness-provided orthogonal matrix")
    return sarr([0, 0, 0]), sarr(Q)


def connected_components(graph, directed=True, return_labels=True, **kw):
    from scipy.sparse.csgraph import connected_components as cc

    g = _np.asarray(_plain(graph))
    if g.dtype == object:
        g = _np.array([[float(v) for v in row] for row in g])
    return cc(g, directed=directed, return_labels=return_labels, **kw)


# ----------------------------------------------------------------------------- scipy.special
def _opaque(name, mpf, info=None):
    def f(*args):
        import mpmath

        c = core.CTX
        args = [Sym._co(core.force(a)) for a in args]
        val = mpf(*[c.value(a) for a in args])
        return Sym(c.opaque_atom(name, args, val, info).gen)

    return f


def _info_ellipe(a):
    # E(m) in [1, pi/2] for m in [0, 1]   (documented range of the complete integral)
    from .core import Cond

    return [Cond.poly((a - 1).num, ">="), Cond.poly((a - core.CTX.pi / 2).signpoly(), "<=")]


def _info_pos(a):
    from .core import Cond

    return [Cond.poly(a.num, ">")]


def _ellipe(m):
    import mpmath

    m = Sym._co(core.force(m))
    if m.is_const() and not m.num:
        return core.CTX.pi / 2
    return _opaque("ellipe", lambda mm: mpmath.ellipe(mm), _info_ellipe)(m)


def _phi_value(phi):
    from .angle import SymAngle

    return phi.value() if isinstance(phi, SymAngle) else phi


def _ellipeinc(phi, m):
    import mpmath

    return _opaque("ellipeinc", lambda p, mm: mpmath.ellipe(p, mm), _info_pos)(_phi_value(phi), m)


def _ellipkinc(phi, m):
    import mpmath

    return _opaque("ellipkinc", lambda p, mm: mpmath.ellipf(p, mm), _info_pos)(_phi_value(phi), m)


ellipe, ellipeinc, ellipkinc = _ellipe, _ellipeinc, _ellipkinc


class MiniballStub:
    """miniball.get_bounding_ball by its contract: the smallest ball containing the points.

    Only for concrete points (exact rational arithmetic, brute force over support sets of 2, 3, 4
    points).  Returns (centre, r^2) like the library."""

    @staticmethod
    def get_bounding_ball(points):
        import itertools
        from fractions import Fraction

        f = getattr(core.CTX, "miniball", None)
        if f is not None:
            return f(points)
        # environment model: the library may fail with LinAlgError (its linear solves are unstable for cocircular
        # points); the harness chooses how many consecutive calls fail on this path
        nfail = getattr(core.CTX, "miniball_failures", 0)
        ncall = getattr(core.CTX, "miniball_calls", 0)
        core.CTX.miniball_calls = ncall + 1
        if ncall < nfail:
            raise _np.linalg.LinAlgError("singular matrix (environment model)")
        P = []
        for row in sarr(points, copy=False).view(_np.ndarray):
            r = []
            for v in row:
                v = Sym._co(core.force(v))
                if not v.is_const():
                    raise core.Abort("miniball reached with symbolic points (only concrete point sets are modelled)")
                r.append(v.as_fraction())
            P.append(r)
        d = len(P[0])

        def sub(a, b):
            return [x - y for x, y in zip(a, b)]

        def dot(a, b):
            return sum(x * y for x, y in zip(a, b))

        def circum(S):
            # centre c = S0 + sum_k l_k (S_k - S0) with |c - S_k| equal: solve Gram system
            base = S[0]
            E = [sub(p, base) for p in S[1:]]
            m = len(E)
            G = [[dot(E[i], E[j]) for j in range(m)] for i in range(m)]
            rhs = [dot(E[i], E[i]) / 2 for i in range(m)]
            # Gaussian elimination (exact)
            A = [G[i][:] + [rhs[i]] for i in range(m)]
            for c in range(m):
                piv = next((r for r in range(c, m) if A[r][c] != 0), None)
                if piv is None:
                    return None
                A[c], A[piv] = A[piv], A[c]
                for r in range(m):
                    if r != c and A[r][c] != 0:
                        fct = A[r][c] / A[c][c]
                        A[r] = [x - fct * y for x, y in zip(A[r], A[c])]
            lam = [A[i][m] / A[i][i] for i in range(m)]
            cen = base[:]
            for l, e in zip(lam, E):
                cen = [x + l * y for x, y in zip(cen, e)]
            return cen

        best = None
        n = len(P)
        for k in (2, 3, 4):
            if k > min(n, d + 1):
                break
            for idx in itertools.combinations(range(n), k):
                cen = circum([P[i] for i in idx])
                if cen is None:
                    continue
                r2 = dot(sub(P[idx[0]], cen), sub(P[idx[0]], cen))
                if best is not None and r2 >= best[1]:
                    continue
                if all(dot(sub(p, cen), sub(p, cen)) <= r2 for p in P):
                    best = (cen, r2)
        if best is None:
            raise core.Abort("no bounding ball found")
        return sarr([K(x) for x in best[0]]), K(best[1])
