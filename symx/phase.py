"""Phase algebra for C12: cos / sin / exp(i.) of arguments that are integer combinations of declared
base phases u_k.  Each base phase has a free real t_k = tan(u_k / 2), so that
cos u_k = (1 - t_k^2) / (1 + t_k^2) and sin u_k = 2 t_k / (1 + t_k^2) are exact rational functions and
every trigonometric value becomes a rational function of the t_k by the angle-addition formulas.
(The single direction u_k = pi (mod 2 pi) is not representable: a stated bound.)"""
from fractions import Fraction

from . import core
from .core import Sym


def declare(ctx, phases, spare=()):
    """phases: list of (Sym u_k, name of the ctx variable t_k); spare: ctx variables for phases discovered on the path."""
    ctx.phases = []
    ctx.spare_phase_vars = list(spare)
    for u, tname in phases:
        t = ctx.sym(tname)
        c = (1 - t * t) / (1 + t * t)
        s = 2 * t / (1 + t * t)
        ctx.phases.append((u, c, s))


def _decompose(x):
    """x = sum n_k u_k with integer n_k, or None."""
    ctx = core.CTX
    x = Sym._co(core.force(x))
    if x.is_const() and not x.num:
        return [0] * len(ctx.phases)
    rest = x
    ns = []
    # base phases are single-term expressions (coefficient * monomial): match term by term
    for u, _, _ in ctx.phases:
        if u.den or len(u.num) != 1:
            raise NotImplementedError("base phase must be a single term")
        (mon, cu), = u.num.terms()
        n = Fraction(0)
        if not rest.den:
            co = rest.num.coeff(core.CTX.R({mon: 1})) if False else None
            for m, cf in rest.num.terms():
                if m == mon:
                    n = Fraction(int(cf.numerator), int(cf.denominator)) / Fraction(int(cu.numerator), int(cu.denominator))
        if n.denominator != 1:
            # finer base phases are needed: the harness restarts the obligation with u_k / n.denominator
            raise core.Abort("phase-refine:%d" % n.denominator)
        ns.append(int(n))
        if n:
            rest = rest - u * int(n)
    if not (rest.is_const() and not rest.num):
        # a remaining single term (e.g. |q| R, with |q| a root atom created on this path) becomes a new base phase
        spare = getattr(ctx, "spare_phase_vars", [])
        if not rest.den and len(rest.num) == 1 and spare:
            tname = spare.pop(0)
            t = ctx.sym(tname)
            ctx.phases.append((rest, (1 - t * t) / (1 + t * t), 2 * t / (1 + t * t)))
            return ns + [1]
        return None
    return ns


def _cpow(c, s, n):
    """(cos(n u), sin(n u)) from (cos u, sin u)."""
    if n < 0:
        cr, sr = _cpow(c, s, -n)
        return cr, -sr
    cr, sr = Sym._co(1), Sym._co(0)
    bc, bs = c, s
    while n:
        if n & 1:
            cr, sr = cr * bc - sr * bs, cr * bs + sr * bc
        n >>= 1
        if n:
            bc, bs = bc * bc - bs * bs, 2 * bc * bs
    return cr, sr


def _opaque_cos_sin(x):
    """cos / sin as two uninterpreted functions of the argument (congruence only, values in [-1, 1]): enough where the
    property does not depend on the trigonometric values themselves (side-effect freedom, C16)."""
    import mpmath
    from .core import Cond

    ctx = core.CTX
    x = Sym._co(core.force(x))
    v = ctx.value(x)

    def info(a):
        return [Cond.poly((a + 1).num, ">="), Cond.poly((a - 1).num, "<=")]

    c = Sym(ctx.opaque_atom("cos", [x], mpmath.cos(v), info).gen)
    s = Sym(ctx.opaque_atom("sin", [x], mpmath.sin(v), info).gen)
    return c, s


def cos_sin(x):
    ctx = core.CTX
    if not getattr(ctx, "phases", None):
        if getattr(ctx, "trig_opaque", False):
            return _opaque_cos_sin(x)
        raise NotImplementedError("trigonometric function of a symbolic real without declared phases")
    ns = _decompose(x)
    if ns is None:
        raise NotImplementedError("argument is not an integer combination of the declared base phases: %r" % (x,))
    cr, sr = Sym._co(1), Sym._co(0)
    for n, (u, c, s) in zip(ns, ctx.phases):
        if n:
            a, b = _cpow(c, s, n)
            cr, sr = cr * a - sr * b, cr * b + sr * a
    return cr, sr


def cexp(z):
    """exp of a purely imaginary SymC."""
    from .npshim import SymC

    if z.re.num:
        raise NotImplementedError("exp of a complex number with non-zero real part")
    c, s = cos_sin(z.im)
    return SymC(c, s)


def sinc(x):
    """numpy's normalised sinc: sin(pi x) / (pi x)."""
    x = Sym._co(core.force(x))
    y = x * core.CTX.pi
    if bool(y == 0):
        return Sym._co(1)
    c, s = cos_sin(y)
    return s / y
