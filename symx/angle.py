"""Angle algebra: an angle is a direction (x, y) with exact scalars plus a turn count.

value = atan2(y, x) + 2*pi*k   (k concrete int, or None = "known modulo 2*pi only")
norm  = True: value is atan2(y, x) reduced to [0, 2*pi)

Comparisons are exact predicates (half-plane index, then sign of a cross product);
trigonometric functions return exact components (one sqrt atom for the norm);
an angle used as a *number* (times a length, etc.) becomes an opaque atom keyed on the
canonical direction, so that two computations of the same angle meet in one symbol.
"""
import math
from fractions import Fraction

import mpmath
import numpy as _np

from . import core
from .core import Sym, SymBool, Cond


def _S(x):
    return core.Sym._co(core.force(x))


def _pi_multiple(s):
    """If Sym s == q*PI with q rational return q, else None."""
    c = core.CTX
    if not isinstance(s, Sym) or s.den or not c.has_pi:
        return None
    pi_idx = c.nin - 1
    q = None
    for mon, coeff in s.num.terms():
        if mon[pi_idx] != 1 or sum(mon) != 1:
            return None
        q = Fraction(int(coeff.numerator), int(coeff.denominator))
    return q if q is not None else (Fraction(0) if not s.num else None)


def _pi_affine(s):
    """If s == q*PI + r with q, r rational return (q, r) else None."""
    c = core.CTX
    if not isinstance(s, Sym) or s.den or not c.has_pi:
        return None
    pi_idx = c.nin - 1
    q = Fraction(0)
    r = Fraction(0)
    for mon, coeff in s.num.terms():
        f = Fraction(int(coeff.numerator), int(coeff.denominator))
        if sum(mon) == 0:
            r = f
        elif mon[pi_idx] == 1 and sum(mon) == 1:
            q = f
        else:
            return None
    return q, r


class SymAngle:
    __slots__ = ("x", "y", "k", "norm", "acos_of")

    def __init__(self, x, y, k=0, norm=False, acos_of=None):
        self.x, self.y, self.k, self.norm, self.acos_of = x, y, k, norm, acos_of

    def __deepcopy__(self, memo):
        return self

    @staticmethod
    def make(y, x):
        x, y = _S(x), _S(y)
        if bool(y == 0) and bool(x == 0):
            return SymAngle(_S(1), _S(0))
        return SymAngle(x, y)

    # ---- classification of the direction
    def half(s):
        """0 if the direction's angle is in [0, pi), 1 if in [pi, 2 pi)."""
        if bool(s.y > 0):
            return 0
        if bool(s.y == 0):
            return 0 if bool(s.x > 0) else 1
        return 1

    def mod2pi(s):
        # value mod 2 pi depends on the direction only
        return SymAngle(s.x, s.y, 0, True, None)

    def principal_negative(s):
        """principal value atan2(y, x) < 0  <=>  y < 0."""
        return bool(s.y < 0)

    # ---- arithmetic
    def _rot(s, o, sign):
        # rotate direction of s by sign * direction of o
        if sign > 0:
            return (s.x * o.x - s.y * o.y, s.y * o.x + s.x * o.y)
        return (s.x * o.x + s.y * o.y, s.y * o.x - s.x * o.y)

    def __sub__(s, o):
        if isinstance(o, _np.ndarray) and o.ndim:
            return NotImplemented
        if isinstance(o, SymAngle):
            x, y = s._rot(o, -1)
            return SymAngle(x, y, None, False)
        return s + (-_S(o))

    def __add__(s, o):
        if isinstance(o, _np.ndarray) and o.ndim:
            return NotImplemented
        if isinstance(o, SymAngle):
            x, y = s._rot(o, +1)
            return SymAngle(x, y, None, False)
        o = _S(o)
        if o.is_const() and not o.num:
            return s
        q = _pi_multiple(o)
        if q is not None and (q / 2).denominator == 1 and s.k is not None:
            return SymAngle(s.x, s.y, s.k + int(q / 2), s.norm, None)
        if q is not None and q.denominator in (1, 2) and s.k is None:
            # rotation by a multiple of pi/2 of an angle known mod 2 pi
            x, y = s.x, s.y
            for _ in range(int(q * 2) % 4):
                x, y = -y, x
            return SymAngle(x, y, None, False)
        return s.value() + o

    __radd__ = __add__

    def __rsub__(s, o):
        if isinstance(o, _np.ndarray) and o.ndim:
            return NotImplemented
        return _S(o) - s.value()

    def __neg__(s):
        return -s.value()

    def __mul__(s, o):
        if isinstance(o, _np.ndarray) and o.ndim:
            return NotImplemented
        return s.value() * o

    __rmul__ = __mul__

    def __truediv__(s, o):
        if isinstance(o, _np.ndarray) and o.ndim:
            return NotImplemented
        o = _S(o)
        if s.acos_of is not None and o.is_const() and o.as_fraction() == 2:
            # half of an angle in [0, pi]: (cos, sin) = (sqrt((1+c)/2), sqrt((1-c)/2))
            c = s.acos_of
            return SymAngle(((1 + c) / 2).sqrt(), ((1 - c) / 2).sqrt(), 0, False, None)
        return s.value() / o

    # ---- the angle as a number
    def value(s):
        c = core.CTX
        if s.acos_of is not None:
            return _acos_value(s.acos_of)
        if s.k is None:
            raise NotImplementedError("numeric value of an angle known only modulo 2 pi")
        r = (s.x * s.x + s.y * s.y).sqrt()
        cx, cy = s.x / r, s.y / r
        fx, fy = float(c.value(cx)), float(c.value(cy))
        val = mpmath.atan2(c.value(cy), c.value(cx))
        if s.norm and val < 0:
            val += 2 * mpmath.pi

        def info(a):
            lo = Cond.poly(a.num, ">=") if s.norm else Cond.poly((a + c.pi).num, ">")
            hi = Cond.poly((a - 2 * c.pi).num, "<") if s.norm else Cond.poly((a - c.pi).num, "<=")
            return [lo, hi]

        a = c.opaque_atom("atan2n" if s.norm else "atan2", [cy, cx], val, info)
        out = Sym(a.gen)
        if s.k:
            out = out + 2 * s.k * c.pi
        return out

    # ---- order
    def _cmp(s, o):
        """-1, 0, 1 for s < o, s == o, s > o (exact, forks)."""
        if isinstance(o, SymAngle):
            if s.k is None or o.k is None:
                raise NotImplementedError("comparison of angles known modulo 2 pi")
            a, b = s._as_norm_plus_turns(), o._as_norm_plus_turns()
            if a[1] != b[1]:
                return -1 if a[1] < b[1] else 1
            return _cmp_norm(a[0], b[0])
        o = _S(o)
        return s._cmp_scalar(o)

    def _as_norm_plus_turns(s):
        if s.norm:
            return SymAngle(s.x, s.y, 0, True), s.k
        # principal p in (-pi, pi]: p = n - 2 pi if y < 0 else n   (n normalised)
        t = s.k - 1 if s.principal_negative() else s.k
        return SymAngle(s.x, s.y, 0, True), t

    def _cmp_scalar(s, t):
        """Compare with a scalar t (a multiple of pi plus a rational, typically)."""
        n, turns = s._as_norm_plus_turns()
        aff = _pi_affine(t)
        if aff is None:
            raise NotImplementedError("angle compared with a general scalar")
        q, r = aff
        # reduce: compare n (in [0, 2pi)) with t' = (q - 2*turns)*pi + r
        q = q - 2 * turns
        if r == 0:
            return _cmp_norm_pimult(n, q)
        # t' = q*pi + r with small r: decide by bracketing between multiples of pi/2 when possible
        lo = q * math.pi + float(r)
        if lo >= 2 * math.pi + 0 and float(r) > 0 and q >= 2:
            return -1
        if lo < 0 and q <= 0 and float(r) < 0:
            return 1
        raise NotImplementedError("angle compared with %s*pi + %s" % (q, r))

    def __lt__(s, o):
        return s._cmp(o) < 0

    def __le__(s, o):
        return s._cmp(o) <= 0

    def __gt__(s, o):
        return s._cmp(o) > 0

    def __ge__(s, o):
        return s._cmp(o) >= 0

    def __eq__(s, o):
        if o is None or isinstance(o, (str, tuple, list)):
            return False
        return s._cmp(o) == 0

    def __ne__(s, o):
        return not (s == o)

    __hash__ = None

    # ---- trigonometry
    def _unit(s):
        r = (s.x * s.x + s.y * s.y).sqrt()
        return s.x / r, s.y / r

    def cos(s):
        return s._unit()[0]

    def sin(s):
        return s._unit()[1]

    def tan(s):
        return s.y / s.x

    def __float__(s):
        c = core.CTX
        v = math.atan2(float(c.value(_S(s.y))), float(c.value(_S(s.x))))
        if s.norm and v < 0:
            v += 2 * math.pi
        return v + 2 * math.pi * (s.k or 0)

    def __repr__(s):
        return "Angle(%r, %r, k=%r%s)" % (s.x, s.y, s.k, ", norm" if s.norm else "")


def _cmp_norm(a, b):
    ha, hb = a.half(), b.half()
    if ha != hb:
        return -1 if ha < hb else 1
    cr = a.x * b.y - a.y * b.x
    if bool(cr > 0):
        return -1
    if bool(cr == 0):
        return 0
    return 1


def _cmp_principal(a, b):
    # principal values in (-pi, pi]: order = lower half first (y<0), then upper
    def lowhalf(s):
        return 0 if s.principal_negative() else 1

    la, lb = lowhalf(a), lowhalf(b)
    if la != lb:
        return -1 if la < lb else 1
    cr = a.x * b.y - a.y * b.x
    if bool(cr > 0):
        return -1
    if bool(cr == 0):
        return 0
    return 1


def _cmp_norm_pimult(n, q):
    """Compare normalised angle n in [0, 2pi) with q*pi."""
    if q >= 2:
        return -1
    if q < 0:
        return 1
    if q == 0:
        # n == 0  <=> y == 0 and x > 0
        return 0 if (bool(n.y == 0) and bool(n.x > 0)) else 1
    if q == 1:
        h = n.half()
        if h == 0:
            return -1
        return 0 if bool(n.y == 0) else 1
    d = _pi_direction(q)
    if d is None:
        raise NotImplementedError("angle compared with %s*pi" % (q,))
    return _cmp_norm(n, SymAngle(d[0], d[1], 0, True))


def _pi_direction(q):
    """(cos, sin) of q*pi for the angles with a closed form over sqrt(2), sqrt(3), sqrt(5)."""
    q = q % 2
    tab = {Fraction(0): (1, 0), Fraction(1, 2): (0, 1), Fraction(1): (-1, 0), Fraction(3, 2): (0, -1)}
    if q in tab:
        return tuple(_S(v) for v in tab[q])
    r2, r3 = _S(2).sqrt(), _S(3).sqrt()
    base = {Fraction(1, 4): (r2 / 2, r2 / 2), Fraction(1, 6): (r3 / 2, _S(Fraction(1, 2))), Fraction(1, 3): (_S(Fraction(1, 2)), r3 / 2)}
    if q.denominator in (5, 10):
        r5 = _S(5).sqrt()
        base.update({Fraction(1, 5): ((1 + r5) / 4, (10 - 2 * r5).sqrt() / 4), Fraction(2, 5): ((r5 - 1) / 4, (10 + 2 * r5).sqrt() / 4),
                     Fraction(1, 10): ((10 + 2 * r5).sqrt() / 4, (r5 - 1) / 4), Fraction(3, 10): ((10 - 2 * r5).sqrt() / 4, (1 + r5) / 4)})
    if q.denominator in (8, 12):
        base.update({Fraction(1, 8): ((2 + r2).sqrt() / 2, (2 - r2).sqrt() / 2), Fraction(3, 8): ((2 - r2).sqrt() / 2, (2 + r2).sqrt() / 2),
                     Fraction(1, 12): ((r2 * r3 + r2) / 4, (r2 * r3 - r2) / 4), Fraction(5, 12): ((r2 * r3 - r2) / 4, (r2 * r3 + r2) / 4)})
    for b, (cx, sy) in base.items():
        for quad in range(4):
            if q == b + Fraction(quad, 2):
                x, y = cx, sy
                for _ in range(quad):
                    x, y = -y, x
                return x, y
    return None


def _acos_value(x):
    c = core.CTX
    x = _S(x)
    if x.is_const():
        f = x.as_fraction()
        tab = {Fraction(1): 0, Fraction(0): Fraction(1, 2), Fraction(-1): 1, Fraction(1, 2): Fraction(1, 3), Fraction(-1, 2): Fraction(2, 3)}
        if f in tab:
            return c.pi * tab[f]
    # canonical representative: arccos(-x) = pi - arccos(x); keep the one with positive leading coefficient
    neg = x.num.LC < 0
    xx = -x if neg else x
    if bool(xx > 1) or bool(xx < -1):
        raise core.NonFinite("arccos outside [-1, 1]")
    val = mpmath.acos(c.value(xx))

    def info(a):
        return [Cond.poly((a).num, ">="), Cond.poly((a - c.pi).num, "<=")]

    at = c.opaque_atom("arccos", [xx], val, info)
    v = Sym(at.gen)
    return c.pi - v if neg else v


# ---------------------------------------------------------------- scalar entry points
def arctan2(y, x):
    return SymAngle.make(y, x)


def arccos(x):
    x = _S(x)
    if bool(x > 1) or bool(x < -1):
        raise core.NonFinite("arccos outside [-1, 1]")
    return SymAngle(x, (1 - x * x).sqrt(), 0, False, acos_of=x)


def _as_angle(t):
    """Interpret a scalar as an angle when it is a rational multiple of pi with closed form."""
    if isinstance(t, SymAngle):
        return t
    t = _S(t)
    q = _pi_multiple(t)
    if q is not None:
        d = _pi_direction(q)
        if d is not None:
            return SymAngle(d[0], d[1], 0, False)
        at = core.CTX.trig_atoms(q) if hasattr(core.CTX, "trig_atoms") else None
        if at is not None:
            return SymAngle(at[0], at[1], 0, False)
    if t.is_const() and not t.num:
        return SymAngle(_S(1), _S(0), 0, False)
    raise NotImplementedError("trigonometric function of a general symbolic real: %r" % (t,))


def cos(t):
    try:
        return _as_angle(t).cos()
    except NotImplementedError:
        from . import phase

        return phase.cos_sin(t)[0]


def sin(t):
    try:
        return _as_angle(t).sin()
    except NotImplementedError:
        from . import phase

        return phase.cos_sin(t)[1]


def tan(t):
    return _as_angle(t).tan()


def mod(a, m):
    """a mod m for angles (m must be 2*pi) and for constants."""
    if isinstance(a, SymAngle):
        q = _pi_multiple(_S(m))
        if q != 2:
            raise NotImplementedError("angle modulo something other than 2 pi")
        return a.mod2pi()
    a, m = _S(a), _S(m)
    if a.is_const() and m.is_const():
        fa, fm = a.as_fraction(), m.as_fraction()
        return core.CTX.const(fa - fm * (fa // fm))
    qa, qm = _pi_multiple(a), _pi_multiple(m)
    if qa is not None and qm is not None and qm != 0:
        return core.CTX.pi * (qa - qm * (qa // qm))
    return a - m * core.floor_int(a / m)  # Python / numpy sign convention: the result has the sign of m
