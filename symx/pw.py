"""Piecewise-constant values {Fraction: guard} with guards as Cond ASTs (DAG-shared)."""
from fractions import Fraction as F

import numpy as _np

from . import core
from .core import Cond, SymBool, _lc


class PW:
    __slots__ = ("cases",)

    def __init__(self, cases):
        self.cases = {k: g for k, g in cases.items() if not (g.kind == "c" and not g.a)}

    @staticmethod
    def const(v):
        return PW({F(v): Cond.const(True)})

    @staticmethod
    def lift(x):
        if isinstance(x, PW):
            return x
        if isinstance(x, SymBool):
            return PW({F(1): x.c, F(0): Cond.Not(x.c)})
        if isinstance(x, (bool, _np.bool_)):
            return PW.const(int(x))
        if isinstance(x, core.Sym):
            return PW.const(x.as_fraction())
        return PW.const(F(x))

    def _bin(s, o, f):
        if isinstance(o, _np.ndarray) and o.ndim:
            return NotImplemented
        o = PW.lift(o)
        out = {}
        for a, ga in s.cases.items():
            for b, gb in o.cases.items():
                v = f(a, b)
                g = Cond.And(ga, gb)
                out[v] = Cond.Or(out[v], g) if v in out else g
        return PW(out)

    def __add__(s, o):
        return s._bin(o, lambda a, b: a + b)

    __radd__ = __add__

    def __sub__(s, o):
        return s._bin(o, lambda a, b: a - b)

    def __rsub__(s, o):
        return PW.lift(o)._bin(s, lambda a, b: a - b)

    def __mul__(s, o):
        return s._bin(o, lambda a, b: a * b)

    __rmul__ = __mul__

    def __neg__(s):
        return PW({-k: g for k, g in s.cases.items()})

    def __floordiv__(s, o):
        return s._bin(o, lambda a, b: F(a // b))

    def _cmp(s, o, f):
        if isinstance(o, _np.ndarray) and o.ndim:
            return NotImplemented
        o = PW.lift(o)
        gs = []
        for a, ga in s.cases.items():
            for b, gb in o.cases.items():
                if f(a, b):
                    gs.append(Cond.And(ga, gb))
        return core.as_bool_if_const(SymBool(Cond.Or(*gs) if gs else Cond.const(False)))

    def __eq__(s, o):
        return s._cmp(o, lambda a, b: a == b)

    def __ne__(s, o):
        return s._cmp(o, lambda a, b: a != b)

    def __lt__(s, o):
        return s._cmp(o, lambda a, b: a < b)

    def __le__(s, o):
        return s._cmp(o, lambda a, b: a <= b)

    def __gt__(s, o):
        return s._cmp(o, lambda a, b: a > b)

    def __ge__(s, o):
        return s._cmp(o, lambda a, b: a >= b)

    __hash__ = None

    def __deepcopy__(self, memo):
        return self

    def __repr__(s):
        return "PW(%s)" % sorted(s.cases)


def ite(g, a, b):
    g = _lc(g)
    a = PW.lift(a)
    b = PW.lift(b)
    out = {}
    for v, ga in a.cases.items():
        out[v] = Cond.And(g, ga)
    ng = Cond.Not(g)
    for v, gb in b.cases.items():
        t = Cond.And(ng, gb)
        out[v] = Cond.Or(out[v], t) if v in out else t
    return PW(out)


def sign(x):
    """sign of a scalar as a PW value."""
    if isinstance(x, PW):
        out = {}
        for v, g in x.cases.items():
            s = F((v > 0) - (v < 0))
            out[s] = Cond.Or(out[s], g) if s in out else g
        return PW(out)
    if isinstance(x, core.LazyAbs):
        x = x.x
        p = x.signpoly()
        return PW({F(1): Cond.poly(p, "!="), F(0): Cond.poly(p, "==")})
    x = core.Sym._co(x)
    if x.is_const():
        f = x.as_fraction()
        return PW.const((f > 0) - (f < 0))
    p = x.signpoly()
    return PW({F(1): Cond.poly(p, ">"), F(-1): Cond.poly(p, "<"), F(0): Cond.poly(p, "==")})
