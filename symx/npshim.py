"""numpy shim: object arrays of exact scalars behaving like float64 arrays.

``SArr`` is an ndarray subclass (dtype=object) whose ``__array_ufunc__`` keeps comparison
results symbolic and routes the handful of ufuncs that need a symbolic meaning.  ``snp`` is a
module-like object that the coxeter modules see as ``np``: everything falls through to the
real numpy except creation functions and the functions listed here.
"""
import functools
import math
import types
from fractions import Fraction

import numpy as _np

from . import core, pw, angle
from .core import Sym, SymBool, LazyAbs, LazyRoot, Cond, sym_and, sym_or
from .pw import PW
from .angle import SymAngle

_NUMERIC = (int, float, Fraction, _np.integer, _np.floating)
_KEEP = (Sym, SymBool, LazyAbs, PW, SymAngle, core.NaNVal)


def conv(x):
    """Canonical element: python/numpy numbers -> Sym constants; symbolic things unchanged."""
    if isinstance(x, _KEEP):
        return x
    if isinstance(x, (bool, _np.bool_)):
        return core.CTX.const(int(x))
    if isinstance(x, _NUMERIC):
        if isinstance(x, (float, _np.floating)) and not math.isfinite(float(x)):
            return float(x)
        return core.CTX.const(x)
    if isinstance(x, SymC):
        return x
    if isinstance(x, (complex, _np.complexfloating)):
        return SymC(core.CTX.const(x.real), core.CTX.const(x.imag))
    if x is None:
        return x
    if isinstance(x, _np.ndarray) and x.ndim == 0:
        return conv(x.item())
    raise TypeError("cannot store %r in a symbolic array" % (type(x),))


def _conv_arr(a):
    out = _np.empty(a.shape, dtype=object)
    if a.dtype == bool:
        for i in _np.ndindex(*a.shape):
            out[i] = bool(a[i])
        return out
    for i in _np.ndindex(*a.shape):
        out[i] = conv(a[i])
    return out


def _all_int(a):
    for v in a.flat:
        if not isinstance(v, (int, _np.integer, bool, _np.bool_)) or isinstance(v, _KEEP):
            return False
    return True


def _is_float_dtype(dt):
    if dt is None:
        return False
    try:
        return _np.issubdtype(_np.dtype(dt), _np.floating)
    except TypeError:
        return False


def _is_complex_dtype(dt):
    if dt is None:
        return False
    try:
        return _np.issubdtype(_np.dtype(dt), _np.complexfloating)
    except TypeError:
        return False


def sarr(x, copy=True):
    """Anything array-like -> SArr of canonical elements."""
    if isinstance(x, SArr):
        return x.copy() if copy else x
    if isinstance(x, _np.ndarray) and x.dtype != object:
        return _conv_arr(x).view(SArr)
    a = _obj_array(x)
    return _conv_arr(a).view(SArr)


def _obj_array(x):
    """np.array(x, dtype=object) that does not try to iterate scalars like Sym."""
    if isinstance(x, _np.ndarray):
        return _np.asarray(x, dtype=object)
    if isinstance(x, (list, tuple)) or hasattr(x, "__iter__") and not isinstance(x, (str, bytes)):
        x = list(x) if not isinstance(x, (list, tuple)) else x
        if len(x) and all(isinstance(e, _np.ndarray) for e in x):
            return _np.asarray([_np.asarray(e, dtype=object) for e in x], dtype=object)
        return _np.array(_listify(x), dtype=object)
    a = _np.empty((), dtype=object)
    a[()] = x
    return a


def _listify(x):
    if isinstance(x, _np.ndarray):
        return [_listify(e) for e in x] if x.ndim else x.item()
    if isinstance(x, (list, tuple)):
        return [_listify(e) for e in x]
    if hasattr(x, "__iter__") and not isinstance(x, (str, bytes) + _KEEP):
        return [_listify(e) for e in x]
    return x


def is_sym(a):
    return isinstance(a, SArr) or isinstance(a, _KEEP)


_CMP = {"less", "less_equal", "greater", "greater_equal", "equal", "not_equal"}


class Sel:
    """arr[mask] with a symbolic mask in piecewise mode (only usable in arr2[mask] = Sel)."""

    def __init__(self, arr, mask):
        self.arr, self.mask = arr, mask


def _sym_mask(k):
    if isinstance(k, _np.ndarray) and k.dtype == object and k.size:
        for v in k.flat:
            if isinstance(v, SymBool):
                return True
            if not isinstance(v, (bool, _np.bool_)):
                return False
    return False


def _bool_mask(k):
    """object array of SymBool/bool -> concrete bool array (forks per symbolic element)."""
    out = _np.empty(k.shape, dtype=bool)
    for i in _np.ndindex(*k.shape):
        out[i] = bool(k[i])
    return out


def _is_boolish_obj(k):
    if isinstance(k, _np.ndarray) and k.dtype == object and k.size:
        return all(isinstance(v, (bool, _np.bool_, SymBool)) for v in k.flat)
    return False


class SArr(_np.ndarray):
    __array_priority__ = 100

    def __new__(cls, a):
        return sarr(a)

    def __array_finalize__(self, obj):
        pass

    # ---- indexing with symbolic masks
    def _fixkey(self, k):
        if isinstance(k, tuple):
            return tuple(self._fixkey1(x) for x in k)
        return self._fixkey1(k)

    def _fixkey1(self, k):
        if _is_boolish_obj(k):
            return _bool_mask(k)
        if isinstance(k, SArr):
            # integer-valued symbolic constants used as indices
            return _np.array([int(v) for v in k.flat]).reshape(k.shape)
        if isinstance(k, Sym):
            return int(k)
        return k

    def __getitem__(self, k):
        if core.CTX.pw_mode and _sym_mask(k):
            return Sel(self, k)
        return super().__getitem__(self._fixkey(k))

    def __setitem__(self, k, v):
        if core.CTX.pw_mode and _sym_mask(k):
            base = self.view(_np.ndarray)
            for idx in _np.ndindex(*k.shape):
                val = v.arr[idx] if isinstance(v, Sel) else v
                g = k[idx]
                if isinstance(g, SymBool):
                    base[idx] = pw.ite(g.c, val, base[idx])
                elif g:
                    base[idx] = val
            return
        k = self._fixkey(k)
        if isinstance(v, _np.ndarray):
            v = sarr(v, copy=False).view(_np.ndarray)
        elif isinstance(v, (list, tuple)):
            v = sarr(v).view(_np.ndarray)
        else:
            v = conv(v)
        super().__setitem__(k, v)

    # ---- ufuncs
    def __array_ufunc__(self, ufunc, method, *inputs, out=None, **kw):
        name = ufunc.__name__
        h = _UFUNC.get((name, method))
        if h is not None:
            return h(*inputs, out=out, **kw)
        ins = []
        for x in inputs:
            if isinstance(x, SArr):
                ins.append(x.view(_np.ndarray))
            elif isinstance(x, _np.ndarray) and x.dtype != object:
                ins.append(_conv_arr(x))
            elif isinstance(x, _NUMERIC) and not isinstance(x, (bool, _np.bool_)):
                ins.append(conv(x))
            else:
                ins.append(x)
        if out is not None:
            outs = []
            for o in out:
                if isinstance(o, SArr):
                    outs.append(o.view(_np.ndarray))
                elif isinstance(o, _np.ndarray) and o.dtype != object:
                    raise TypeError("symbolic result written into a concrete %s array" % o.dtype)
                else:
                    outs.append(o)
            kw["out"] = tuple(outs)
        if name in _CMP and method == "__call__":
            kw["dtype"] = object
        res = getattr(ufunc, method)(*ins, **kw)
        if out is not None:
            return out[0] if len(out) == 1 else out
        if name in _CMP and isinstance(res, _np.ndarray) and res.dtype == object and \
                all(isinstance(v, (bool, _np.bool_)) for v in res.flat):
            return res.astype(bool)  # all concrete (or empty): a real boolean array, usable as a mask
        return _wrap(res)

    def __bool__(self):
        if self.size == 1:
            return bool(self.flat[0])
        raise ValueError("The truth value of an array with more than one element is ambiguous.")

    # methods that numpy implements in C without going through ufuncs
    def max(self, axis=None, **kw):
        return snp.max(self, axis=axis)

    def min(self, axis=None, **kw):
        return snp.min(self, axis=axis)

    def argmax(self, axis=None, **kw):
        return snp.argmax(self, axis=axis)

    def argmin(self, axis=None, **kw):
        return snp.argmin(self, axis=axis)

    def all(self, axis=None, **kw):
        return snp.all(self, axis=axis)

    def any(self, axis=None, **kw):
        return snp.any(self, axis=axis)

    def mean(self, axis=None, **kw):
        return snp.mean(self, axis=axis)

    def dot(self, other):
        return snp.dot(self, other)

    def round(self, decimals=0, **kw):
        return snp.round(self, decimals)

    def astype(self, dtype, **kw):
        if _is_float_dtype(dtype) or _is_complex_dtype(dtype) or dtype is object or dtype is float or dtype is complex:
            return self.copy()  # exact scalars stand for floats and for complex numbers alike
        return _np.asarray(self.view(_np.ndarray)).astype(dtype, **kw)

    def tolist(self):
        return self.view(_np.ndarray).tolist()

    def nonzero(self):
        return _bool_mask(_np.asarray(self.view(_np.ndarray) != 0, dtype=object)).nonzero()

    def __deepcopy__(self, memo):
        return self.copy()

    def __reduce__(self):
        raise TypeError("symbolic arrays are not picklable")


def _wrap(res):
    if isinstance(res, _np.ndarray):
        if res.dtype == object:
            if res.ndim == 0:
                return res.item()
            return res.view(SArr)
        return res
    if isinstance(res, tuple):
        return tuple(_wrap(r) for r in res)
    return res


def _plain(x):
    return x.view(_np.ndarray) if isinstance(x, SArr) else x


def _elementwise(f, *arrs):
    arrs = [_np.asarray(_plain(a), dtype=object) if isinstance(a, _np.ndarray) else a for a in arrs]
    b = _np.broadcast(*arrs)
    out = _np.empty(b.shape, dtype=object)
    out.flat = [f(*vals) for vals in b]
    if out.ndim == 0:
        return out.item()
    return out.view(SArr)


def _store(res, out):
    if out is None:
        return res
    o = out[0] if isinstance(out, tuple) else out
    o[...] = res
    return o


# ---------------------------------------------------------------- ufunc overrides
def _u_sign(x, out=None, **kw):
    if core.CTX.pw_mode:
        return _store(_elementwise(pw.sign, x), out)

    def sg(v):
        if isinstance(v, PW):
            return pw.sign(v)
        v = core.force(v) if not isinstance(v, LazyAbs) else v
        if isinstance(v, LazyAbs):
            return core.CTX.const(0 if bool(v.x == 0) else 1)
        v = Sym._co(v)
        if bool(v > 0):
            return core.CTX.const(1)
        if bool(v < 0):
            return core.CTX.const(-1)
        return core.CTX.const(0)

    return _store(_elementwise(sg, x), out)


def _b(v):
    if isinstance(v, SymBool):
        return v
    if isinstance(v, (bool, _np.bool_)):
        return bool(v)
    if isinstance(v, Sym):
        return v != 0
    if isinstance(v, PW):
        return v != 0
    return bool(v)


def _and2(a, b):
    a, b = _b(a), _b(b)
    if a is False or b is False:
        return False
    if a is True:
        return b
    if b is True:
        return a
    return core.as_bool_if_const(sym_and(a, b))


def _or2(a, b):
    a, b = _b(a), _b(b)
    if a is True or b is True:
        return True
    if a is False:
        return b
    if b is False:
        return a
    return core.as_bool_if_const(sym_or(a, b))


def _not1(a):
    a = _b(a)
    return (not a) if isinstance(a, bool) else core.as_bool_if_const(~a)


def _u_logical_and(a, b, out=None, **kw):
    return _store(_elementwise(_and2, a, b), out)


def _u_logical_or(a, b, out=None, **kw):
    return _store(_elementwise(_or2, a, b), out)


def _u_logical_not(a, out=None, **kw):
    return _store(_elementwise(_not1, a), out)


def _reduce_bool(f, unit):
    def red(a, axis=0, out=None, keepdims=False, **kw):
        a = _np.asarray(_plain(a), dtype=object)
        if axis is None:
            acc = unit
            for v in a.flat:
                acc = f(acc, v)
            return acc
        if isinstance(axis, tuple):
            res = a
            for ax in sorted(axis, reverse=True):
                res = red(res, axis=ax)
                res = _np.asarray(_plain(res), dtype=object) if isinstance(res, _np.ndarray) else res
            return _wrap(res) if isinstance(res, _np.ndarray) else res
        a = _np.moveaxis(a, axis, 0)
        out_arr = _np.empty(a.shape[1:], dtype=object)
        for idx in _np.ndindex(*a.shape[1:]):
            acc = unit
            for i in range(a.shape[0]):
                acc = f(acc, a[(i,) + idx])
            out_arr[idx] = acc
        if out_arr.ndim == 0:
            return out_arr.item()
        if all(isinstance(v, bool) for v in out_arr.flat):
            return out_arr.astype(bool)
        return out_arr.view(SArr)

    return red


_all_reduce = _reduce_bool(_and2, True)
_any_reduce = _reduce_bool(_or2, False)


def _u_isfinite(a, out=None, **kw):
    return _elementwise(lambda v: not (isinstance(v, float) and not math.isfinite(v)), a)


def _u_isnan(a, out=None, **kw):
    return _elementwise(lambda v: isinstance(v, float) and math.isnan(v), a)


def _u_floor_divide(a, b, out=None, **kw):
    def fd(x, y):
        if isinstance(x, PW) or isinstance(y, PW):
            return PW.lift(x) // y
        x, y = Sym._co(x), Sym._co(y)
        if x.is_const() and y.is_const():
            return core.CTX.const(x.as_fraction() // y.as_fraction())
        return core.CTX.const(core.floor_int(x / y))

    return _store(_elementwise(fd, a, b), out)


def _u_remainder(a, b, out=None, **kw):
    return _store(_elementwise(angle.mod, a, b), out)


def _u_fmod(a, b, out=None, **kw):
    def fm(x, y):  # C fmod: result has the sign of x
        x, y = Sym._co(core.force(x)), Sym._co(core.force(y))
        q = x / y
        k = core.floor_int(q) if bool(q >= 0) else -core.floor_int(-q)
        return x - y * k

    return _store(_elementwise(fm, a, b), out)


def _u_int_valued(f):
    def g(a, out=None, **kw):
        return _store(_elementwise(lambda v: core.CTX.const(f(Sym._co(core.force(v)))), a), out)

    return g


def _u_hypot(a, b, out=None, **kw):
    def hy(x, y):
        x, y = Sym._co(core.force(x)), Sym._co(core.force(y))
        return (x * x + y * y).sqrt()

    return _store(_elementwise(hy, a, b), out)


def _u_copysign(a, b, out=None, **kw):
    def cs(x, y):
        x, y = Sym._co(core.force(x)), Sym._co(core.force(y))
        pos = bool(x >= 0)
        return (x if pos else -x) if bool(y >= 0) else (-x if pos else x)

    return _store(_elementwise(cs, a, b), out)


def _u_signbit(a, out=None, **kw):
    r = _elementwise(lambda v: bool(Sym._co(core.force(v)) < 0), a)
    return _store(r.astype(bool) if isinstance(r, _np.ndarray) else r, out)


def _u_deg2rad(a, out=None, **kw):
    return _store(_elementwise(lambda v: Sym._co(core.force(v)) * core.CTX.pi / 180, a), out)


def _u_rad2deg(a, out=None, **kw):
    return _store(_elementwise(lambda v: Sym._co(core.force(v)) * 180 / core.CTX.pi, a), out)


def _u_float_power(a, b, out=None, **kw):
    return _store(_elementwise(lambda x, y: Sym._co(core.force(x)) ** y, a, b), out)


def _u_cbrt(a, out=None, **kw):
    return _store(_elementwise(lambda v: Sym._co(core.force(v)).root(3), a), out)


def _u_sqrt(a, out=None, **kw):
    return _store(_elementwise(lambda v: Sym._co(core.force(v)).sqrt(), a), out)


def _trig(name):
    def f(a, out=None, **kw):
        return _store(_elementwise(lambda v: getattr(angle, name)(v) if not isinstance(v, SymAngle) else getattr(v, name)(), a), out)

    return f


def _u_arctan2(y, x, out=None, **kw):
    return _store(_elementwise(angle.arctan2, y, x), out)


def _u_arccos(a, out=None, **kw):
    return _store(_elementwise(angle.arccos, a), out)


def _u_arcsin(a, out=None, **kw):
    # arcsin x = pi / 2 - arccos x: the same uninterpreted function as arccos, so identities between the two survive
    def f(v):
        v = Sym._co(core.force(v))
        if bool(v > 1) or bool(v < -1):
            raise core.NonFinite("arcsin outside [-1, 1]")
        return core.CTX.pi / 2 - angle._acos_value(v)

    return _store(_elementwise(f, a), out)


def _u_arctan(a, out=None, **kw):
    return _store(_elementwise(lambda v: angle.arctan2(Sym._co(core.force(v)), Sym._co(1)), a), out)


def _u_absolute(a, out=None, **kw):
    return _store(_elementwise(lambda v: abs(v), a), out)


def _u_exp(a, out=None, **kw):
    return _store(_elementwise(lambda v: v.exp(), a), out)


def _u_conj(a, out=None, **kw):
    return _store(_elementwise(lambda v: v.conjugate(), a), out)


def _u_minmax(which):
    def f(a, b, out=None, **kw):
        def mm(x, y):
            x, y = core.force(x), core.force(y)
            if which == "max":
                return x if bool(x >= y) else y
            return x if bool(x <= y) else y

        return _store(_elementwise(mm, a, b), out)

    return f


def _minmax_reduce(which):
    def red(a, axis=0, out=None, keepdims=False, **kw):
        return (snp.max if which == "max" else snp.min)(a, axis=axis)

    return red


_UFUNC = {
    ("sign", "__call__"): _u_sign,
    ("logical_and", "__call__"): _u_logical_and,
    ("logical_or", "__call__"): _u_logical_or,
    ("logical_not", "__call__"): _u_logical_not,
    ("invert", "__call__"): _u_logical_not,
    ("bitwise_and", "__call__"): _u_logical_and,
    ("bitwise_or", "__call__"): _u_logical_or,
    ("logical_and", "reduce"): _all_reduce,
    ("logical_or", "reduce"): _any_reduce,
    ("isfinite", "__call__"): _u_isfinite,
    ("isnan", "__call__"): _u_isnan,
    ("floor_divide", "__call__"): _u_floor_divide,
    ("remainder", "__call__"): _u_remainder,
    ("fmod", "__call__"): _u_fmod,
    ("floor", "__call__"): _u_int_valued(core.floor_int),
    ("ceil", "__call__"): _u_int_valued(lambda v: -core.floor_int(-v)),
    ("trunc", "__call__"): _u_int_valued(lambda v: v.__trunc__()),
    ("rint", "__call__"): _u_int_valued(core.rint_int),
    ("hypot", "__call__"): _u_hypot,
    ("copysign", "__call__"): _u_copysign,
    ("signbit", "__call__"): _u_signbit,
    ("deg2rad", "__call__"): _u_deg2rad,
    ("radians", "__call__"): _u_deg2rad,
    ("rad2deg", "__call__"): _u_rad2deg,
    ("degrees", "__call__"): _u_rad2deg,
    ("float_power", "__call__"): _u_float_power,
    ("cbrt", "__call__"): _u_cbrt,
    ("sqrt", "__call__"): _u_sqrt,
    ("sin", "__call__"): _trig("sin"),
    ("cos", "__call__"): _trig("cos"),
    ("tan", "__call__"): _trig("tan"),
    ("arctan2", "__call__"): _u_arctan2,
    ("arccos", "__call__"): _u_arccos,
    ("arcsin", "__call__"): _u_arcsin,
    ("arctan", "__call__"): _u_arctan,
    ("absolute", "__call__"): _u_absolute,
    ("fabs", "__call__"): _u_absolute,
    ("exp", "__call__"): _u_exp,
    ("conjugate", "__call__"): _u_conj,
    ("maximum", "__call__"): _u_minmax("max"),
    ("minimum", "__call__"): _u_minmax("min"),
    ("maximum", "reduce"): _minmax_reduce("max"),
    ("minimum", "reduce"): _minmax_reduce("min"),
}


# ---------------------------------------------------------------- complex pairs (C12)
class SymC:
    """Complex number as a pair of exact scalars."""

    __slots__ = ("re", "im")

    def __init__(self, re, im=0):
        self.re = Sym._co(re)
        self.im = Sym._co(im)

    @staticmethod
    def lift(o):
        if isinstance(o, SymC):
            return o
        if isinstance(o, (complex, _np.complexfloating)):
            return SymC(core.CTX.const(o.real), core.CTX.const(o.imag))
        return SymC(Sym._co(core.force(o)), core.CTX.const(0))

    def _ok(o):
        return not (isinstance(o, _np.ndarray) and o.ndim)

    def __add__(s, o):
        if not SymC._ok(o):
            return NotImplemented
        o = SymC.lift(o)
        return SymC(s.re + o.re, s.im + o.im)

    __radd__ = __add__

    def __sub__(s, o):
        if not SymC._ok(o):
            return NotImplemented
        o = SymC.lift(o)
        return SymC(s.re - o.re, s.im - o.im)

    def __rsub__(s, o):
        if not SymC._ok(o):
            return NotImplemented
        o = SymC.lift(o)
        return SymC(o.re - s.re, o.im - s.im)

    def __neg__(s):
        return SymC(-s.re, -s.im)

    def __mul__(s, o):
        if not SymC._ok(o):
            return NotImplemented
        o = SymC.lift(o)
        return SymC(s.re * o.re - s.im * o.im, s.re * o.im + s.im * o.re)

    __rmul__ = __mul__

    def __truediv__(s, o):
        if not SymC._ok(o):
            return NotImplemented
        o = SymC.lift(o)
        if not o.im.num:
            return SymC(s.re / o.re, s.im / o.re)
        d = o.re * o.re + o.im * o.im
        return SymC((s.re * o.re + s.im * o.im) / d, (s.im * o.re - s.re * o.im) / d)

    def __rtruediv__(s, o):
        return SymC.lift(o) / s

    def conjugate(s):
        return SymC(s.re, -s.im)

    @property
    def real(s):
        return s.re

    @property
    def imag(s):
        return s.im

    def exp(s):
        from . import phase

        return phase.cexp(s)

    def __deepcopy__(self, memo):
        return self

    __hash__ = None

    def __eq__(s, o):
        o = SymC.lift(o)
        return sym_and(s.re == o.re, s.im == o.im)

    def __repr__(s):
        return "SymC(%r, %r)" % (s.re, s.im)


def _sym_complex_mul(s, o):
    return SymC.lift(s) * o


# let Sym * 1j work
def _patch_sym_complex():
    orig = Sym._co

    def co(o):
        if isinstance(o, (complex, _np.complexfloating)):
            raise core._Defer()
        return orig(o)

    Sym._co = staticmethod(co)


# ---------------------------------------------------------------- the module object
class _Linalg:
    def __getattr__(self, k):
        return getattr(_np.linalg, k)

    LinAlgError = _np.linalg.LinAlgError

    def norm(self, x, ord=None, axis=None, keepdims=False):
        x = sarr(x, copy=False)
        s = _wrap(_np.sum((x * x).view(_np.ndarray), axis=axis, keepdims=keepdims))

        def lazy(v):
            v = Sym._co(core.force(v))
            if v.is_const():
                return v.sqrt()
            return core.LazyRoot(v)

        return _elementwise(lazy, s) if isinstance(s, _np.ndarray) else lazy(s)

    def det(self, m):
        m = sarr(m, copy=False)
        if m.ndim > 2:
            out = _np.empty(m.shape[:-2], dtype=object)
            for i in _np.ndindex(*m.shape[:-2]):
                out[i] = self.det(m[i])
            return out.view(SArr)
        return _det(m.view(_np.ndarray))

    def inv(self, m):
        m = sarr(m, copy=False).view(_np.ndarray)
        n = m.shape[0]
        d = _det(m)
        core.nonzero(d)
        adj = _np.empty((n, n), dtype=object)
        for i in range(n):
            for j in range(n):
                minor = _np.delete(_np.delete(m, i, axis=0), j, axis=1)
                adj[j, i] = (-1) ** (i + j) * (_det(minor) if n > 1 else core.CTX.const(1))
        return (adj / d).view(SArr) if False else _elementwise(lambda v: v / d, adj)

    def solve(self, a, b):
        a = sarr(a, copy=False)
        b = sarr(b, copy=False)
        if a.ndim > 2:
            out = _np.empty(b.shape, dtype=object)
            for i in _np.ndindex(*a.shape[:-2]):
                out[i] = _plain(self.solve(a[i], b[i]))
            return out.view(SArr)
        return snp.dot(self.inv(a), b)

    def lstsq(self, a, b, rcond=None):
        from . import stubs

        return stubs.lstsq(a, b)

    def eigh(self, m):
        from . import stubs

        return stubs.eigh(m)


def _det(m):
    n = m.shape[0]
    if n == 1:
        return m[0, 0]
    if n == 2:
        return m[0, 0] * m[1, 1] - m[0, 1] * m[1, 0]
    if n == 3:
        return (m[0, 0] * (m[1, 1] * m[2, 2] - m[1, 2] * m[2, 1]) - m[0, 1] * (m[1, 0] * m[2, 2] - m[1, 2] * m[2, 0])
                + m[0, 2] * (m[1, 0] * m[2, 1] - m[1, 1] * m[2, 0]))
    tot = core.CTX.const(0)
    for j in range(n):
        minor = _np.delete(_np.delete(m, 0, axis=0), j, axis=1)
        tot = tot + (-1) ** j * m[0, j] * _det(minor)
    return tot


def _shape(shape):
    return (shape,) if isinstance(shape, (int, _np.integer)) else tuple(shape)


def _filled(shape, v):
    a = _np.empty(_shape(shape), dtype=object)
    a.fill(v)
    return a.view(SArr)


def _isclose1(a, b, rtol, atol):
    """|a - b| <= atol + rtol*|b| as one condition (no fork on signs)."""
    a, b = core.force(a), core.force(b)
    if isinstance(a, float) or isinstance(b, float):  # infinities
        return a == b
    a, b = Sym._co(a), Sym._co(b)
    d = a - b
    if b.is_const():
        t = atol + rtol * abs(b.as_fraction())
        return core.as_bool_if_const(sym_and(d <= t, -d <= t))
    tp = atol + rtol * b
    tn = atol - rtol * b
    return core.as_bool_if_const(
        sym_or(sym_and(b >= 0, d <= tp, -d <= tp), sym_and(b < 0, d <= tn, -d <= tn)))


class SymNP(types.ModuleType):
    """What the coxeter modules see as ``np`` while a symbolic run is active."""

    linalg = _Linalg()
    float64 = _np.float64
    complex128 = _np.complex128
    newaxis = None
    inf = float("inf")
    ndarray = _np.ndarray

    def __getattr__(self, k):
        return getattr(_np, k)

    @property
    def pi(self):
        return core.CTX.pi

    # ---- creation
    def array(self, x, dtype=None, copy=True, **kw):
        if dtype is bool:
            return _np.array(x, dtype=bool)
        if isinstance(x, SArr):
            return x.copy()
        if isinstance(x, _np.ndarray) and x.dtype != object:
            if _is_float_dtype(dtype) or (dtype is None and _np.issubdtype(x.dtype, _np.floating)):
                return _conv_arr(x).view(SArr)
            return _np.array(x, dtype=dtype)
        a = _obj_array(x)
        if dtype is not None and not _is_float_dtype(dtype) and not _is_complex_dtype(dtype) and dtype is not object:
            return _np.array(x, dtype=dtype)
        if dtype is None and a.size and _all_int(a):
            return _np.array(x)
        if dtype is None and a.size == 0:
            return _np.array(x)
        return _conv_arr(a).view(SArr)

    def asarray(self, x, dtype=None, **kw):
        if isinstance(x, SArr):
            return x
        if isinstance(x, _np.ndarray) and x.dtype != object and not _is_float_dtype(dtype):
            if _np.issubdtype(x.dtype, _np.floating):
                return _conv_arr(x).view(SArr)
            return x
        return self.array(x, dtype=dtype)

    def asanyarray(self, x, dtype=None, **kw):
        return self.asarray(x, dtype)

    def ascontiguousarray(self, x, dtype=None):
        return self.asarray(x, dtype)

    def zeros(self, shape, dtype=None):
        if dtype is not None and not _is_float_dtype(dtype) and not _is_complex_dtype(dtype):
            return _np.zeros(shape, dtype=dtype)
        if _is_complex_dtype(dtype):
            return _filled(shape, SymC(0, 0))
        return _filled(shape, core.CTX.const(0))

    def empty(self, shape, dtype=None):
        return self.zeros(shape, dtype)

    def ones(self, shape, dtype=None):
        if dtype is not None and not _is_float_dtype(dtype):
            return _np.ones(shape, dtype=dtype)
        return _filled(shape, core.CTX.const(1))

    def full(self, shape, v, dtype=None):
        return _filled(shape, conv(v))

    def zeros_like(self, a, dtype=None):
        a = _np.asarray(a) if not isinstance(a, _np.ndarray) else a
        if not isinstance(a, SArr) and dtype is None and not _np.issubdtype(a.dtype, _np.floating):
            return _np.zeros_like(a)
        return self.zeros(a.shape, dtype)

    def empty_like(self, a, dtype=None):
        return self.zeros_like(a, dtype)

    def ones_like(self, a, dtype=None):
        a = _np.asarray(a) if not isinstance(a, _np.ndarray) else a
        if not isinstance(a, SArr) and dtype is None and not _np.issubdtype(a.dtype, _np.floating):
            return _np.ones_like(a)
        return self.ones(a.shape, dtype)

    def full_like(self, a, v, dtype=None):
        a = _np.asarray(a) if not isinstance(a, _np.ndarray) else a
        return self.full(a.shape, v)

    def eye(self, n, **kw):
        a = _filled((n, n), core.CTX.const(0))
        for i in range(n):
            a[i, i] = core.CTX.const(1)
        return a

    def diag(self, v, k=0):
        v = sarr(v, copy=False)
        if v.ndim == 1:
            n = len(v)
            a = _filled((n, n), core.CTX.const(0))
            for i in range(n):
                a[i, i] = v[i]
            return a
        return _np.diag(v.view(_np.ndarray)).view(SArr)

    def linspace(self, start, stop, num=50, endpoint=True, **kw):
        start, stop = Sym._co(start), Sym._co(stop)
        div = (num - 1) if endpoint else num
        step = (stop - start) / div
        return sarr([start + step * i for i in range(num)])

    def copy(self, a):
        return a.copy() if isinstance(a, _np.ndarray) else self.array(a)

    # ---- joining (numpy's own, but inputs must all be object arrays)
    def _objs(self, seq):
        return [sarr(x, copy=False).view(_np.ndarray) if not (isinstance(x, _np.ndarray) and x.dtype != object and not _np.issubdtype(x.dtype, _np.floating)) else x for x in seq]

    def _join(self, f, seq, *a, **kw):
        seq = list(seq)
        if not any(isinstance(x, SArr) or _has_sym(x) for x in seq):
            if all(isinstance(x, _np.ndarray) and not _np.issubdtype(x.dtype, _np.floating) for x in seq):
                return f(seq, *a, **kw)
        return _wrap(f([sarr(x, copy=False).view(_np.ndarray) for x in seq], *a, **kw))

    def hstack(self, seq):
        return self._join(_np.hstack, seq)

    def vstack(self, seq):
        return self._join(_np.vstack, seq)

    def concatenate(self, seq, axis=0):
        return self._join(_np.concatenate, seq, axis=axis)

    def stack(self, seq, axis=0):
        return self._join(_np.stack, seq, axis=axis)

    def column_stack(self, seq):
        return self._join(_np.column_stack, seq)

    def append(self, arr, values, axis=None):
        return self.concatenate([self.asarray(arr).ravel() if axis is None else arr,
                                 self.asarray(values).ravel() if axis is None else values], axis=axis or 0)

    def atleast_2d(self, a):
        if isinstance(a, _np.ndarray) and not isinstance(a, SArr) and a.dtype != object and not _np.issubdtype(a.dtype, _np.floating):
            return _np.atleast_2d(a)
        return _wrap(_np.atleast_2d(sarr(a, copy=False).view(_np.ndarray)))

    def atleast_1d(self, a):
        return _wrap(_np.atleast_1d(sarr(a, copy=False).view(_np.ndarray)))

    def tile(self, a, reps):
        return _wrap(_np.tile(_plain(self.asarray(a)), reps))

    def repeat(self, a, repeats, axis=None):
        return _wrap(_np.repeat(_plain(self.asarray(a)), repeats, axis=axis))

    def squeeze(self, a, axis=None):
        return _wrap(_np.squeeze(_plain(self.asarray(a)), axis=axis))

    def roll(self, a, shift, axis=None):
        return _wrap(_np.roll(_plain(self.asarray(a)), shift=shift, axis=axis))

    def moveaxis(self, a, s, d):
        return _wrap(_np.moveaxis(_plain(a), s, d))

    def shape(self, a):
        if isinstance(a, _KEEP):
            return ()
        return _np.shape(_plain(a)) if isinstance(a, _np.ndarray) else _np.shape(_obj_array(a))

    def take_along_axis(self, a, idx, axis):
        return _wrap(_np.take_along_axis(_plain(a), idx, axis=axis))

    # ---- products
    def dot(self, a, b):
        a, b = self._pair(a, b)
        return _wrap(_np.dot(a, b))

    def inner(self, a, b):
        a, b = self._pair(a, b)
        return _wrap(_np.inner(a, b))

    def outer(self, a, b):
        a, b = self._pair(a, b)
        return _wrap(_np.outer(a, b))

    def matmul(self, a, b):
        a, b = self._pair(a, b)
        return _wrap(_np.matmul(a, b))

    def cross(self, a, b, axis=-1, **kw):
        a, b = self._pair(a, b)
        return _wrap(_np.cross(a, b, axis=axis))

    def multiply(self, a, b):
        return self.asarray(a) * self.asarray(b) if not is_sym(a) or isinstance(a, _np.ndarray) else a * b

    def _pair(self, a, b):
        return sarr(a, copy=False).view(_np.ndarray), sarr(b, copy=False).view(_np.ndarray)

    def einsum(self, spec, *ops, **kw):
        return _einsum(spec, *[sarr(o, copy=False).view(_np.ndarray) for o in ops])

    def sum(self, a, axis=None, keepdims=False, **kw):
        if not is_sym(a) and not _has_sym(a):
            if isinstance(a, _np.ndarray) and a.dtype != object and not _np.issubdtype(a.dtype, _np.floating):
                return _np.sum(a, axis=axis, keepdims=keepdims)
        a = sarr(a, copy=False).view(_np.ndarray)
        if a.size == 0:
            return core.CTX.const(0) if axis is None else _filled(_np.sum(_np.zeros(a.shape), axis=axis, keepdims=keepdims).shape, core.CTX.const(0))
        return _wrap(_np.sum(a, axis=axis, keepdims=keepdims))

    def mean(self, a, axis=None, keepdims=False, **kw):
        a = sarr(a, copy=False).view(_np.ndarray)
        if axis is None:
            n = a.size
        elif isinstance(axis, tuple):
            n = int(_np.prod([a.shape[i] for i in axis]))
        else:
            n = a.shape[axis]
        return _wrap(_np.sum(a, axis=axis, keepdims=keepdims)) / n

    def average(self, a, axis=None, weights=None, **kw):
        if weights is None:
            return self.mean(a, axis=axis, **kw)
        a = sarr(a, copy=False)
        w = sarr(weights, copy=False)
        if w.ndim == 1 and a.ndim > 1:
            ax = 0 if axis is None else axis
            shp = [1] * a.ndim
            shp[ax] = w.shape[0]
            w = w.reshape(shp)
        return self.sum(a * w, axis=axis) / self.sum(w * _np.ones(a.shape, dtype=int), axis=axis)

    def isscalar(self, x):
        return isinstance(x, (Sym, LazyAbs, core.LazyRoot)) or _np.isscalar(x)

    def prod(self, a, axis=None):
        return _wrap(_np.prod(sarr(a, copy=False).view(_np.ndarray), axis=axis))

    # ---- elementwise maths
    def sqrt(self, x):
        return _u_sqrt(x) if isinstance(x, _np.ndarray) else Sym._co(core.force(x)).sqrt()

    def cbrt(self, x):
        return _u_cbrt(x) if isinstance(x, _np.ndarray) else Sym._co(core.force(x)).root(3)

    def abs(self, x):
        return _u_absolute(x) if isinstance(x, _np.ndarray) else abs(conv(x))

    absolute = abs

    def sign(self, x):
        return _u_sign(self.asarray(x) if not isinstance(x, _KEEP) else x)

    def square(self, x):
        return x * x

    def power(self, x, k):
        return x ** k

    def sin(self, x):
        return _trig("sin")(x if isinstance(x, (_np.ndarray,) + _KEEP) else conv(x))

    def cos(self, x):
        return _trig("cos")(x if isinstance(x, (_np.ndarray,) + _KEEP) else conv(x))

    def tan(self, x):
        return _trig("tan")(x if isinstance(x, (_np.ndarray,) + _KEEP) else conv(x))

    def arccos(self, x):
        return _u_arccos(x if isinstance(x, (_np.ndarray,) + _KEEP) else conv(x))

    def arcsin(self, x):
        return _u_arcsin(sarr(x, copy=False) if _np.ndim(x) else conv(x))

    def arctan(self, x):
        return _u_arctan(sarr(x, copy=False) if _np.ndim(x) else conv(x))

    def arctan2(self, y, x):
        return _u_arctan2(self.asarray(y) if not isinstance(y, _KEEP) else y, self.asarray(x) if not isinstance(x, _KEEP) else x)

    def exp(self, x):
        return _u_exp(x)

    # angle conversions always go through the symbolic pi (a float 2.0943951... would not be recognised as 2 pi / 3)
    def deg2rad(self, x):
        return _u_deg2rad(sarr(x, copy=False)) if _np.ndim(x) else conv(x) * core.CTX.pi / 180

    radians = deg2rad

    def rad2deg(self, x):
        return _u_rad2deg(sarr(x, copy=False)) if _np.ndim(x) else conv(x) * 180 / core.CTX.pi

    degrees = rad2deg

    def sinc(self, x):
        from . import phase

        return _elementwise(phase.sinc, x)

    def conj(self, x):
        return _u_conj(x)

    conjugate = conj

    def real(self, x):
        return _elementwise(lambda v: v.real, x)

    def imag(self, x):
        return _elementwise(lambda v: v.imag, x)

    def mod(self, a, b, out=None):
        if not is_sym(a) and not is_sym(b) and not _has_sym(a):
            return _np.mod(a, b, out=out)
        return _u_remainder(a, b, out=out)

    remainder = mod

    def round(self, a, decimals=0):
        # only constants can be rounded exactly
        def rd(v):
            v = Sym._co(core.force(v))
            if not v.is_const():
                return v  # A1: rounding to 6 decimals only merges points closer than 1e-6 (exactly equal points in the model)
            f = v.as_fraction()
            return core.CTX.const(Fraction(round(f * 10 ** decimals), 10 ** decimals))

        return _elementwise(rd, a)

    around = round

    def isclose(self, a, b, rtol=1e-05, atol=1e-08, equal_nan=False):
        rtol, atol = core.rationalise(rtol), core.rationalise(atol)
        if isinstance(a, _np.ndarray) or isinstance(b, _np.ndarray) or isinstance(a, (list, tuple)) or isinstance(b, (list, tuple)):
            a2 = sarr(a, copy=False) if not isinstance(a, _KEEP) else a
            b2 = sarr(b, copy=False) if not isinstance(b, _KEEP) else b
            r = _elementwise(lambda x, y: _isclose1(x, y, rtol, atol), a2, b2)
            if isinstance(r, _np.ndarray) and all(isinstance(v, (bool, _np.bool_)) for v in r.flat):
                return _np.asarray(r.view(_np.ndarray), dtype=bool)
            return r
        return _isclose1(conv(a), conv(b), rtol, atol)

    def allclose(self, a, b, rtol=1e-05, atol=1e-08, equal_nan=False):
        r = self.isclose(a, b, rtol, atol)
        if isinstance(r, _np.ndarray):
            return bool(_all_reduce(r, axis=None))
        return bool(r)

    def array_equal(self, a, b):
        a, b = sarr(a, copy=False), sarr(b, copy=False)
        if a.shape != b.shape:
            return False
        return bool(_all_reduce(a == b, axis=None))

    def logical_and(self, a, b):
        return _u_logical_and(a, b)

    def logical_or(self, a, b):
        return _u_logical_or(a, b)

    def logical_not(self, a):
        return _u_logical_not(a)

    def all(self, a, axis=None, **kw):
        if isinstance(a, _np.ndarray) and a.dtype == bool:
            return _np.all(a, axis=axis)
        if isinstance(a, (SymBool, bool, _np.bool_)):
            return a
        return _all_reduce(_np.asarray(_plain(a) if isinstance(a, _np.ndarray) else _obj_array(a), dtype=object), axis=axis)

    def any(self, a, axis=None, **kw):
        if isinstance(a, _np.ndarray) and a.dtype == bool:
            return _np.any(a, axis=axis)
        if isinstance(a, (SymBool, bool, _np.bool_)):
            return a
        return _any_reduce(_np.asarray(_plain(a) if isinstance(a, _np.ndarray) else _obj_array(a), dtype=object), axis=axis)

    def where(self, c, *ab):
        if not ab:
            c = _np.asarray(_plain(c)) if isinstance(c, _np.ndarray) else _np.asarray(c)
            if c.dtype == object:
                c = _bool_mask(c)
            return _np.where(c)
        a, b = ab
        if core.CTX.pw_mode:
            return _elementwise(lambda g, x, y: pw.ite(_b(g), x, y) if isinstance(_b(g), SymBool) else (x if _b(g) else y), c, a, b)
        return _elementwise(lambda g, x, y: conv(x) if bool(g) else conv(y), c, a, b)

    def nonzero(self, a):
        return self.where(a)

    # ---- order statistics (fork per comparison)
    def max(self, a=None, axis=None, **kw):
        return _minmax(a, axis, True)

    amax = max

    def min(self, a=None, axis=None, **kw):
        return _minmax(a, axis, False)

    amin = min

    def argmax(self, a, axis=None):
        return _argminmax(a, True)

    def argmin(self, a, axis=None):
        return _argminmax(a, False)

    def argsort(self, a, axis=-1, **kw):
        if isinstance(a, _np.ndarray) and a.dtype != object:
            return _np.argsort(a, axis=axis, **kw)
        a = _np.asarray(_plain(a), dtype=object)
        if a.ndim == 0:
            return _np.zeros((), dtype=int)
        if a.ndim != 1:
            if axis is None:
                return self.argsort(a.ravel())
            # lane by lane along the axis (stable, like the 1-D case)
            m = _np.moveaxis(a, axis, -1)
            out = _np.empty(m.shape, dtype=int)
            for i in _np.ndindex(*m.shape[:-1]):
                out[i] = self.argsort(m[i])
            return _np.moveaxis(out, -1, axis)
        return _np.array(sorted(range(len(a)), key=functools.cmp_to_key(lambda i, j: _cmp3(a[i], a[j]))), dtype=int)

    def sort(self, a, axis=-1, **kw):
        if isinstance(a, _np.ndarray) and not isinstance(a, SArr) and a.dtype != object:
            return _np.sort(a, axis=axis, **kw)
        if not _has_sym(a) and _all_int(_np.asarray(_plain(self.asarray(a)), dtype=object)):
            return _np.sort(_np.array(_np.asarray(_plain(self.asarray(a)), dtype=object).tolist()), axis=axis, **kw)
        a = sarr(a)
        if axis is None:
            a = a.ravel()
            axis = -1
        idx = self.argsort(a, axis=axis)
        return _wrap(_np.take_along_axis(a.view(_np.ndarray), idx, axis=axis))

    def lexsort(self, keys):
        keys = [(_np.asarray(_plain(k), dtype=object) if isinstance(k, _np.ndarray) else _np.asarray(k)) for k in keys]
        if all(k.dtype != object for k in keys):
            return _np.lexsort(keys)
        if keys[0].ndim == 2:
            # numpy sorts along the last axis: one independent lexsort per row
            return _np.array([self.lexsort([k[r] for k in keys]) for r in range(keys[0].shape[0])])
        n = len(keys[0])

        def cmp(i, j):
            for k in reversed(keys):
                c = _cmp3(k[i], k[j])
                if c:
                    return c
            return 0

        return _np.array(sorted(range(n), key=functools.cmp_to_key(cmp)))

    def unique(self, a, axis=None, return_index=False, **kw):
        if isinstance(a, _np.ndarray) and a.dtype != object:
            return _np.unique(a, axis=axis, return_index=return_index, **kw)
        if not isinstance(a, _np.ndarray) and not _has_sym(a):
            return _np.unique(a, axis=axis, return_index=return_index, **kw)
        a = sarr(a, copy=False)
        if axis == 0 and a.ndim == 2 and return_index:
            return _LazyUnique(a, False), _LazyUnique(a, True)
        if axis == 0 and a.ndim == 2:
            rows = list(range(len(a)))

            def cmp(i, j):
                for k in range(a.shape[1]):
                    c = _cmp3(a[i, k], a[j, k])
                    if c:
                        return c
                return 0

            order = sorted(rows, key=functools.cmp_to_key(cmp))
            keep = []
            for i in order:
                if keep and cmp(keep[-1], i) == 0:
                    continue
                keep.append(i)
            idx = _np.array(keep)
            return (a[idx], idx) if return_index else a[idx]
        if a.ndim == 1 or axis is None:
            flat = a.ravel()
            order = sorted(range(len(flat)), key=functools.cmp_to_key(lambda i, j: _cmp3(flat[i], flat[j])))
            keep = []
            for i in order:
                if keep and _cmp3(flat[keep[-1]], flat[i]) == 0:
                    continue
                keep.append(i)
            idx = _np.array(keep)
            return (flat[idx], idx) if return_index else flat[idx]
        raise NotImplementedError("unique along axis %r" % (axis,))

    def shares_memory(self, a, b):
        return _np.shares_memory(a, b)

    def isfinite(self, a):
        return _u_isfinite(a) if isinstance(a, _np.ndarray) else True

    def isnan(self, a):
        return _u_isnan(a) if isinstance(a, _np.ndarray) else False


class _LazyUnique:
    """np.unique(rows, axis=0, return_index=True): the number of distinct rows is decided by pairwise
    equality conditions (one fork per pair); the sort is only performed if the contents are read."""

    _cache = {}

    def __init__(self, a, want_index):
        self.a, self.want_index = a, want_index
        self._res = None

    def _distinct(self):
        a = self.a
        key = id(a)
        st = getattr(a, "_uniq_state", None)
        keep = []
        for i in range(len(a)):
            dup = False
            for j in keep:
                if bool(_all_reduce(a[i] == a[j], axis=None)):
                    dup = True
                    break
            if not dup:
                keep.append(i)
        return keep

    def _sorted(self):
        if self._res is None:
            a = self.a
            keep = self._distinct()

            def cmp(i, j):
                for k in range(a.shape[1]):
                    c = _cmp3(a[i, k], a[j, k])
                    if c:
                        return c
                return 0

            if getattr(core.CTX, "exact_unique_order", False) or all(Sym._co(core.force(v)).is_const() for v in a.flat):
                order = sorted(keep, key=functools.cmp_to_key(cmp))
            else:
                # symbolic rows: numpy's lexicographic output order would fork on every pair of coordinates; modelled as
                # first-occurrence order (the consumers here are order-independent, which C01 establishes for the constructor)
                order = keep
            idx = _np.array(order)
            self._res = idx if self.want_index else a[idx]
        return self._res

    def __len__(self):
        return len(self._distinct()) if self._res is None else len(self._res)

    @property
    def shape(self):
        return (len(self),) + (() if self.want_index else self.a.shape[1:])

    def __getitem__(self, k):
        return self._sorted()[k]

    def __iter__(self):
        return iter(self._sorted())

    def __array__(self, dtype=None, copy=None):
        return _np.asarray(self._sorted())


def _has_sym(x):
    if isinstance(x, _KEEP):
        return True
    if isinstance(x, _np.ndarray):
        return x.dtype == object and any(isinstance(v, _KEEP) for v in x.flat)
    if isinstance(x, (list, tuple)):
        return any(_has_sym(v) for v in x)
    return False


def _cmp3(x, y):
    if isinstance(x, SymAngle) or isinstance(y, SymAngle):
        if not isinstance(x, SymAngle):
            return -y._cmp(x)
        return x._cmp(y)
    x, y = core.force(x), core.force(y)
    if isinstance(x, _NUMERIC) and isinstance(y, _NUMERIC):
        return -1 if x < y else (1 if x > y else 0)
    if bool(x < y):
        return -1
    if bool(x == y):
        return 0
    return 1


def _minmax(a, axis, is_max):
    a = sarr(a, copy=False).view(_np.ndarray)
    if axis is None:
        vals = list(a.flat)
        best = core.force(vals[0])
        for v in vals[1:]:
            v = core.force(v)
            if (bool(v > best) if is_max else bool(v < best)):
                best = v
        return best
    a = _np.moveaxis(a, axis, 0)
    out = _np.empty(a.shape[1:], dtype=object)
    for idx in _np.ndindex(*a.shape[1:]):
        best = core.force(a[(0,) + idx])
        for i in range(1, a.shape[0]):
            v = core.force(a[(i,) + idx])
            if (bool(v > best) if is_max else bool(v < best)):
                best = v
        out[idx] = best
    return _wrap(out)


def _argminmax(a, is_max):
    a = sarr(a, copy=False).view(_np.ndarray).ravel()
    best = 0
    for i in range(1, len(a)):
        c = _cmp3(a[i], a[best])
        if (c > 0) if is_max else (c < 0):
            best = i
    return best


def _einsum(spec, *ops):
    """Small exact einsum (explicit indices or implicit output)."""
    spec = spec.replace(" ", "")
    if "->" in spec:
        ins, out = spec.split("->")
    else:
        ins = spec
        letters = "".join(sorted(set(c for c in ins if c.isalpha())))
        out = "".join(c for c in letters if ins.count(c) == 1)
    ins = ins.split(",")
    dims = {}
    for s, o in zip(ins, ops):
        assert len(s) == o.ndim, (s, o.shape)
        for c, n in zip(s, o.shape):
            dims[c] = n
    summed = [c for c in dims if c not in out]
    res = _np.empty([dims[c] for c in out], dtype=object)
    zero = core.CTX.const(0)
    for oidx in _np.ndindex(*res.shape):
        env = dict(zip(out, oidx))
        tot = zero
        for sidx in _np.ndindex(*[dims[c] for c in summed]):
            env.update(zip(summed, sidx))
            t = None
            for s, o in zip(ins, ops):
                v = o[tuple(env[c] for c in s)]
                t = v if t is None else t * v
            tot = tot + t
        res[oidx] = tot
    return res.item() if res.ndim == 0 else res.view(SArr)


snp = SymNP("symnp")
_patch_sym_complex()
