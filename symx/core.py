"""symx core: exact real-closed-field scalars, condition ASTs and the concolic path engine.

Scalars (``Sym``) are fractions ``num / prod(f**e)`` over ``QQ[inputs, atoms]`` (sympy sparse
polynomial ring).  *Atoms* are extra generators with a defining relation (``a**k = h``,
``a >= 0`` for even k) or opaque transcendental values.  Branch conditions are small boolean
ASTs over polynomial sign conditions; they are evaluated at a rational sample point
(concolic) and translated to z3 only when an alternative has to be solved.

The engine never reports anything by itself: harnesses record *claims*; a claim is decided
by z3 (``unsat`` of the negation under the path condition = held, ``sat`` = model returned
to the harness for replay on the real float code, ``unknown`` = inconclusive).
"""
import math
import os
import sys
import time
import traceback
from fractions import Fraction

import mpmath
import numpy as _np
import z3
from sympy import QQ
from sympy.polys.rings import ring as _ring

mpmath.mp.prec = 420
_MPF = mpmath.mpf

CTX = None  # the active context (one per process / obligation)


class Abort(BaseException):
    """Ends the current path (not catchable by ``except Exception`` in the code under test)."""


class NonFinite(ArithmeticError):
    """A float operation of the real code would have produced inf/nan here (division by 0)."""


def rationalise(x):
    """Float literal -> simplest fraction within 2 ulp of the double (assumption A1)."""
    f = Fraction(float(x))
    if f == 0:
        return f
    tol = abs(f) * Fraction(1, 2 ** 51)
    n = 1
    while n < 10 ** 18:
        g = f.limit_denominator(n)
        if abs(g - f) <= tol:
            return g
        n *= 10
    return f


def to_fraction(x):
    if isinstance(x, Fraction):
        return x
    if isinstance(x, (bool, _np.bool_)):
        return Fraction(int(x))
    if isinstance(x, (int, _np.integer)):
        return Fraction(int(x))
    if isinstance(x, (float, _np.floating)):
        if not math.isfinite(float(x)):
            raise OverflowError("non-finite float reaches exact arithmetic: %r" % (x,))
        return rationalise(x)
    raise TypeError("cannot make an exact scalar from %r" % (type(x),))


# ----------------------------------------------------------------------------- conditions
class Cond:
    """Boolean AST.  kind: 'c' (const), 'p' (poly OP 0), 'and', 'or', 'not'."""

    __slots__ = ("kind", "a", "b")

    def __init__(self, kind, a=None, b=None):
        self.kind = kind
        self.a = a
        self.b = b

    @staticmethod
    def const(v):
        return _TRUE if v else _FALSE

    @staticmethod
    def poly(p, op):
        """p OP 0 with OP in '<', '<=', '==', '!=', '>', '>='."""
        if p.is_ground:
            v = p.LC if p else 0
            return Cond.const(_OPS[op](v, 0))
        pos = getattr(CTX, "positive_idx", None)
        if pos:
            mons = list(p.keys())
            mg = [min(m[i] for m in mons) if i in pos else 0 for i in range(len(mons[0]))]
            if any(mg):
                p = CTX.R({tuple(e - g for e, g in zip(m, mg)): co for m, co in p.terms()})
                if p.is_ground:
                    return Cond.const(_OPS[op](p.LC, 0))
        # normalise the sign so that p and -p share a z3 translation
        return Cond("p", p, op)

    @staticmethod
    def And(*cs):
        out = []
        for c in cs:
            if c.kind == "c":
                if not c.a:
                    return _FALSE
                continue
            if c.kind == "and":
                out.extend(c.a)
            else:
                out.append(c)
        if not out:
            return _TRUE
        return out[0] if len(out) == 1 else Cond("and", out)

    @staticmethod
    def Or(*cs):
        out = []
        for c in cs:
            if c.kind == "c":
                if c.a:
                    return _TRUE
                continue
            if c.kind == "or":
                out.extend(c.a)
            else:
                out.append(c)
        if not out:
            return _FALSE
        return out[0] if len(out) == 1 else Cond("or", out)

    @staticmethod
    def Not(c):
        if c.kind == "c":
            return Cond.const(not c.a)
        if c.kind == "not":
            return c.a
        if c.kind == "p":
            return Cond("p", c.a, _NEG[c.b])
        return Cond("not", c)

    @staticmethod
    def Iff(a, b):
        return Cond.Or(Cond.And(a, b), Cond.And(Cond.Not(a), Cond.Not(b)))

    def size(self, seen=None):
        """Number of distinct nodes (conditions are DAGs)."""
        seen = set() if seen is None else seen
        if id(self) in seen:
            return 0
        seen.add(id(self))
        if self.kind in ("and", "or"):
            return 1 + sum(c.size(seen) for c in self.a)
        if self.kind == "not":
            return 1 + self.a.size(seen)
        return 1

    def gens_used(self, acc, seen=None):
        seen = set() if seen is None else seen
        if id(self) in seen:
            return acc
        seen.add(id(self))
        if self.kind == "p":
            for m in self.a.keys():
                for i, e in enumerate(m):
                    if e:
                        acc.add(i)
        elif self.kind in ("and", "or"):
            for c in self.a:
                c.gens_used(acc, seen)
        elif self.kind == "not":
            self.a.gens_used(acc, seen)
        return acc

    def is_linear(self, seen=None):
        seen = set() if seen is None else seen
        if id(self) in seen:
            return True
        seen.add(id(self))
        if self.kind == "p":
            return all(sum(m) <= 1 for m in self.a.keys())
        if self.kind in ("and", "or"):
            return all(c.is_linear(seen) for c in self.a)
        if self.kind == "not":
            return self.a.is_linear(seen)
        return True

    def __repr__(self):
        if self.kind == "c":
            return "T" if self.a else "F"
        if self.kind == "p":
            s = str(self.a)
            return "(%s %s 0)" % (s if len(s) < 80 else s[:77] + "...", self.b)
        if self.kind == "not":
            return "~%r" % (self.a,)
        return "(" + (" & " if self.kind == "and" else " | ").join(map(repr, self.a)) + ")"


_TRUE = Cond("c", True)
_FALSE = Cond("c", False)
_OPS = {
    "<": lambda a, b: a < b,
    "<=": lambda a, b: a <= b,
    "==": lambda a, b: a == b,
    "!=": lambda a, b: a != b,
    ">": lambda a, b: a > b,
    ">=": lambda a, b: a >= b,
}
_NEG = {"<": ">=", "<=": ">", "==": "!=", "!=": "==", ">": "<=", ">=": "<"}
_SIGN_OK = {
    "<": lambda s: s < 0,
    "<=": lambda s: s <= 0,
    "==": lambda s: s == 0,
    "!=": lambda s: s != 0,
    ">": lambda s: s > 0,
    ">=": lambda s: s >= 0,
}


class SymBool:
    """A condition that forks the path engine when coerced to ``bool``."""

    __slots__ = ("c",)

    def __init__(self, c):
        self.c = c

    def __bool__(self):
        return CTX.branch(self.c)

    def __and__(s, o):
        if isinstance(o, _np.ndarray):
            return NotImplemented
        return SymBool(Cond.And(s.c, _lc(o)))

    __rand__ = __and__

    def __or__(s, o):
        if isinstance(o, _np.ndarray):
            return NotImplemented
        return SymBool(Cond.Or(s.c, _lc(o)))

    __ror__ = __or__

    def __xor__(s, o):
        return SymBool(Cond.Not(Cond.Iff(s.c, _lc(o))))

    __rxor__ = __xor__

    def __invert__(s):
        return SymBool(Cond.Not(s.c))

    def __mul__(s, o):
        if isinstance(o, _np.ndarray) and o.ndim:
            return NotImplemented
        from .pw import PW

        return PW.lift(s) * o

    __rmul__ = __mul__

    def __eq__(s, o):
        if isinstance(o, _np.ndarray):
            return NotImplemented
        return SymBool(Cond.Iff(s.c, _lc(o)))

    def __ne__(s, o):
        if isinstance(o, _np.ndarray):
            return NotImplemented
        return SymBool(Cond.Not(Cond.Iff(s.c, _lc(o))))

    __hash__ = None

    def __deepcopy__(self, memo):
        return self

    def __repr__(self):
        return "SymBool%r" % (self.c,)


def _lc(o):
    if isinstance(o, SymBool):
        return o.c
    if isinstance(o, Cond):
        return o
    if isinstance(o, (bool, _np.bool_, int, _np.integer)):
        return Cond.const(bool(o))
    raise TypeError("not a boolean: %r" % (type(o),))


def sym_and(*xs):
    return SymBool(Cond.And(*[_lc(x) for x in xs]))


def sym_or(*xs):
    return SymBool(Cond.Or(*[_lc(x) for x in xs]))


def as_bool_if_const(x):
    """SymBool with a constant condition -> Python bool; otherwise unchanged."""
    if isinstance(x, SymBool) and x.c.kind == "c":
        return bool(x.c.a)
    return x


# ----------------------------------------------------------------------------- context
class Atom:
    __slots__ = ("gen", "idx", "kind", "k", "h", "val", "info", "fname", "args")

    def __init__(self, gen, idx, kind, k, h, val, info=None):
        self.gen, self.idx, self.kind, self.k, self.h, self.val, self.info = gen, idx, kind, k, h, val, info
        self.fname = None
        self.args = ()


class Ctx:
    def __init__(self, names, natoms=40, pi=True, lemmas=()):
        self.names = list(names)
        self.has_pi = pi
        self.all_inputs = self.names + (["PI"] if pi else [])
        self.natoms = natoms
        self.atom_names = ["_a%d" % i for i in range(natoms)]
        self.R, *gens = _ring(self.all_inputs + self.atom_names, QQ)
        self.gens = gens
        self.ngen = len(gens)
        self.nin = len(self.all_inputs)
        self.var = {n: g for n, g in zip(self.all_inputs + self.atom_names, gens)}
        self.z3vars = [z3.Real(n) for n in self.all_inputs + self.atom_names]
        self.one = self.R(1)
        self.zero = self.R(0)
        self._z3cache = {}
        self._div_pt = [((7919 * (i + 3)) % 1009) + 2 for i in range(self.ngen)]
        # statistics
        self.nq = 0
        self.tq = 0.0
        self.n_alt_refuted = 0
        self.n_alt_unknown = 0
        self.n_decisions = 0
        self.n_exact_fallback = 0
        self.solver_timeout_ms = 20000
        self.alt_timeout_ms = 4000
        self.lemmas = list(lemmas)
        self.pw_mode = False
        self.concretised = []
        self.cvc5_budget = int(os.environ.get("VERIF_CVC5_PER_OBLIGATION", "0") or 0)
        self.cvc5 = {}
        self.cvc5_s = 0.0
        self._z3memo = {}
        self.positive_idx = set()
        self.base_pre = []
        self.reset_path({}, [])

    # ---- path state
    def reset_path(self, sample, prefix):
        self.sample = dict(sample)  # name -> Fraction
        self.atoms = []
        self.atom_key = {}
        self.squares = {}
        self.vals = [None] * self.ngen  # mpf values per generator
        self.fvals = [None] * self.ngen  # Fraction values (inputs only)
        for i, n in enumerate(self.all_inputs):
            if n == "PI":
                self.vals[i] = mpmath.pi + 0
                continue
            v = self.sample.get(n)
            if v is not None:
                self.fvals[i] = v
                self.vals[i] = _MPF(v.numerator) / _MPF(v.denominator)
        self.prefix = list(prefix)
        self._z3memo = {}
        self.decided = {}
        self.pos = 0
        self.decisions = []
        self.pc = []
        self.new_alts = []
        self.claims = []
        self.notes = []
        self.concretised = []

    def declare_positive(self, *names):
        """Inputs known > 0 by the precondition: monomial factors in them are dropped from sign conditions."""
        for n in names:
            i = self.all_inputs.index(n)
            if i not in self.positive_idx:
                self.base_pre.append(Cond("p", self.gens[i], ">"))
            self.positive_idx.add(i)
        if self.has_pi:
            self.positive_idx.add(self.nin - 1)

    # ---- constructors
    def sym(self, name):
        return Sym(self.var[name])

    def const(self, x):
        if isinstance(x, Sym):
            return x
        f = to_fraction(x)
        return Sym(self.R(QQ(f.numerator, f.denominator)))

    @property
    def pi(self):
        return Sym(self.var["PI"])

    # ---- numeric evaluation at the sample
    def eval_frac(self, p):
        """Exact value if p only involves sampled inputs (no PI, no atoms), else None."""
        fv = self.fvals
        nin = self.nin
        tot = Fraction(0)
        for mon, coeff in p.terms():
            t = Fraction(int(coeff.numerator), int(coeff.denominator))
            for i, e in enumerate(mon):
                if e:
                    if i >= nin or fv[i] is None:
                        return None
                    t *= fv[i] ** e
            tot += t
        return tot

    def eval_mp(self, p):
        vals = self.vals
        tot = _MPF(0)
        mag = _MPF(0)
        for mon, coeff in p.terms():
            t = _MPF(int(coeff.numerator)) / _MPF(int(coeff.denominator))
            for i, e in enumerate(mon):
                if e:
                    v = vals[i]
                    if v is None:
                        raise Abort("generator %d has no value at the sample" % i)
                    t *= v ** e
            tot += t
            mag += abs(t)
        return tot, mag

    def sign(self, p):
        """Exact sign of polynomial p at the sample point."""
        if p.is_ground:
            v = p.LC if p else 0
            return (v > 0) - (v < 0)
        f = self.eval_frac(p)
        if f is not None:
            return (f > 0) - (f < 0)
        v, mag = self.eval_mp(p)
        if abs(v) > mag * _MPF(2) ** (-330):
            return 1 if v > 0 else -1
        # |value| < 1e-99 relative at 420-bit precision: taken as zero.  This only steers the concolic
        # choice of which side to follow first; the other side stays queued, so coverage is unaffected.
        self.n_exact_fallback += 1
        return 0

    def value(self, s):
        """mpf value of a Sym at the sample."""
        n, _ = self.eval_mp(s.num)
        d = _MPF(1)
        for f, e in s.den.items():
            fv, _ = self.eval_mp(f)
            d *= fv ** e
        return n / d

    def _exact_sign(self, p):
        s = z3.SolverFor("QF_NRA")
        s.set("timeout", self.solver_timeout_ms)
        for i, n in enumerate(self.all_inputs):
            if n == "PI":
                continue
            if self.fvals[i] is not None:
                s.add(self.z3vars[i] == _rv(self.fvals[i]))
        s.add(*self.atom_constraints())
        zp = self.poly_z3(p)
        for sg, f in ((0, zp == 0), (1, zp > 0), (-1, zp < 0)):
            s.push()
            s.add(f)
            r = self._timed_check(s)
            s.pop()
            if r == "sat":
                return sg
        raise Abort("cannot decide the sign of a near-zero quantity at the sample")

    def holds(self, c, memo=None):
        """Evaluate a condition at the sample (memoised on node identity: guards are DAGs)."""
        k = c.kind
        if k == "c":
            return bool(c.a)
        if k == "p":
            return _SIGN_OK[c.b](self.sign(c.a))
        if memo is None:
            memo = {}
        r = memo.get(id(c))
        if r is not None:
            return r
        if k == "and":
            r = all(self.holds(x, memo) for x in c.a)
        elif k == "or":
            r = any(self.holds(x, memo) for x in c.a)
        else:
            r = not self.holds(c.a, memo)
        memo[id(c)] = r
        return r

    # ---- z3 translation
    def poly_z3(self, p):
        r = self._z3cache.get(p)
        if r is not None:
            return r
        terms = []
        zv = self.z3vars
        for mon, coeff in p.terms():
            t = None
            for v, e in zip(zv, mon):
                for _ in range(e):
                    t = v if t is None else t * v
            cz = z3.RealVal(str(coeff))
            terms.append(cz if t is None else (t if coeff == 1 else cz * t))
        r = z3.Sum(terms) if len(terms) > 1 else (terms[0] if terms else z3.RealVal(0))
        if len(self._z3cache) < 20000:
            self._z3cache[p] = r
        return r

    def z3c(self, c, memo=None):
        k = c.kind
        if k == "c":
            return z3.BoolVal(bool(c.a))
        if k == "p":
            return _OPS[c.b](self.poly_z3(c.a), 0)
        if memo is None:
            memo = self._z3memo
        r = memo.get(id(c))
        if r is not None:
            return r[1]
        if k == "and":
            r = z3.And(*[self.z3c(x, memo) for x in c.a])
        elif k == "or":
            r = z3.Or(*[self.z3c(x, memo) for x in c.a])
        else:
            r = z3.Not(self.z3c(c.a, memo))
        memo[id(c)] = (c, r)  # keep the node alive so that its id stays unique
        return r

    def atom_constraints(self, atoms=None):
        cs = []
        for a in self.atoms if atoms is None else atoms:
            v = self.z3vars[a.idx]
            if a.kind == "root":
                lhs = v
                for _ in range(a.k - 1):
                    lhs = lhs * v
                cs.append(lhs == self.poly_z3(a.h))
                if a.k % 2 == 0:
                    cs.append(v >= 0)
            elif a.kind == "opaque" and a.info:
                for c in a.info:
                    cs.append(self.z3c(c))
        # Ackermann congruence for opaque function symbols: equal arguments -> equal values
        ops = [a for a in (self.atoms if atoms is None else atoms) if a.kind == "opaque"]
        for i in range(len(ops)):
            for j in range(i + 1, len(ops)):
                a, b = ops[i], ops[j]
                if a.fname != b.fname or len(a.args) != len(b.args):
                    continue
                eqs = []
                for x, y in zip(a.args, b.args):
                    d = x - y
                    eqs.append(self.poly_z3(d.num) == 0)
                cs.append(z3.Implies(z3.And(*eqs), self.z3vars[a.idx] == self.z3vars[b.idx]))
        if self.has_pi:
            p = self.z3vars[self.nin - 1]
            cs.append(p > z3.RealVal("3.14159265358"))
            cs.append(p < z3.RealVal("3.14159265359"))
        return cs

    def _timed_check(self, s):
        t = time.time()
        r = s.check()
        self.tq += time.time() - t
        self.nq += 1
        return str(r)

    def cross_check(self, solver):
        """Second opinion from cvc5 on a query z3 answered ``unsat`` (exported as SMT-LIB2).  Returns 'unsat', 'sat' or 'unknown'."""
        try:
            import cvc5

            txt = "(set-logic ALL)\n" + solver.to_smt2()
            if "(error" in txt:
                return "unknown"
            slv = cvc5.Solver()
            slv.setOption("tlimit-per", "4000")
            p = cvc5.InputParser(slv)
            p.setStringInput(cvc5.InputLanguage.SMT_LIB_2_6, txt, "q")
            sm = p.getSymbolManager()
            res = "unknown"
            while True:
                c = p.nextCommand()
                if c.isNull():
                    break
                out = c.invoke(slv, sm)
                if c.getCommandName() == "check-sat":
                    res = str(out).strip()
            return res if res in ("sat", "unsat") else "unknown"
        except Exception:  # noqa: BLE001
            return "unknown"

    def solve(self, conds, timeout_ms=None, atoms=None, z3extra=(), is_claim=False):
        """check-sat of atom relations + lemmas + conds.  Returns (verdict, model|None)."""
        ats = self.atoms if atoms is None else atoms
        if not z3extra and all(isinstance(c, Cond) for c in conds):
            # cone of influence: only atoms that occur (transitively) in the conditions
            used = set()
            for c in conds:
                c.gens_used(used)
            changed = True
            while changed:
                changed = False
                for a in ats:
                    if a.idx in used:
                        deps = set()
                        if a.kind == "root":
                            for m in a.h.keys():
                                deps.update(i for i, e in enumerate(m) if e)
                        for x in a.args:
                            for p in [x.num] + list(x.den):
                                for m in p.keys():
                                    deps.update(i for i, e in enumerate(m) if e)
                        if not deps <= used:
                            used |= deps
                            changed = True
            ats = [a for a in ats if a.idx in used]
            atoms = ats
        linear = not z3extra and not ats and all(isinstance(c, Cond) and c.is_linear() for c in conds)
        s = z3.SolverFor("QF_LRA") if linear else z3.SolverFor("QF_NRA")
        s.set("timeout", timeout_ms or self.solver_timeout_ms)
        s.add(*self.atom_constraints(atoms))
        memo = self._z3memo
        for c in conds:
            s.add(self.z3c(c, memo) if isinstance(c, Cond) else c)
        for c in z3extra:
            s.add(c)
        r = self._timed_check(s)
        if r == "unknown" and not linear:
            # second opinion from the general solver (different strategy on heavy boolean structure)
            s2 = z3.Solver()
            s2.set("timeout", timeout_ms or self.solver_timeout_ms)
            s2.add(*s.assertions())
            r = self._timed_check(s2)
            s = s2
        if r == "unsat" and is_claim and self.cvc5_budget > 0:
            self.cvc5_budget -= 1
            t = time.time()
            r2 = self.cross_check(s)
            self.cvc5_s += time.time() - t
            self.cvc5[r2] = self.cvc5.get(r2, 0) + 1
            if r2 == "sat":
                return "unknown", None  # the two solvers disagree: the obligation is inconclusive
        return r, (s.model() if r == "sat" else None)

    # ---- branching
    def branch(self, c):
        if c.kind == "c":
            return bool(c.a)
        if c.kind == "p":
            k = self.decided.get((c.a, c.b))
            if k is not None:
                return k
        self.n_decisions += 1
        if self.pos < len(self.prefix):
            d = self.prefix[self.pos]
        else:
            d = self.holds(c)
            self.new_alts.append((self.decisions + [not d], self.pc + [Cond.Not(c) if d else c], list(self.atoms)))
        self.pos += 1
        self.decisions.append(d)
        self.pc.append(c if d else Cond.Not(c))
        if c.kind == "p":
            self.decided[(c.a, c.b)] = d
            self.decided[(c.a, _NEG[c.b])] = not d
            if c.b in ("<", ">") and d:
                self.decided[(c.a, "==")] = False
                self.decided[(c.a, "!=")] = True
                self.decided[(c.a, "<=" if c.b == "<" else ">=")] = True
                self.decided[(c.a, ">=" if c.b == "<" else "<=")] = False
                self.decided[(c.a, ">" if c.b == "<" else "<")] = False
            if c.b == "==" and d:
                for op, v in (("<", False), (">", False), ("<=", True), (">=", True)):
                    self.decided[(c.a, op)] = v
        if len(self.decisions) > self.max_decisions:
            raise Abort("decision budget exceeded")
        return d

    max_decisions = 200000

    def assume(self, c, why=""):
        """Path-local assumption (harness side): abort the path if it fails at the sample."""
        c = _lc(c)
        if not self.holds(c):
            raise Abort("assumption fails at the sample: " + why)
        self.pc.append(c)

    # ---- atoms
    def _new_atom(self, kind, k, h, val, info=None):
        i = self.nin + len(self.atoms)
        if len(self.atoms) >= self.natoms:
            raise Abort("out of atom slots")
        a = Atom(self.gens[i], i, kind, k, h, val, info)
        self.atoms.append(a)
        self.vals[i] = val
        return a

    def root_atom(self, h, k):
        key = ("root", h, k)
        a = self.atom_key.get(key)
        if a is None:
            hv, _ = self.eval_mp(h)
            if k % 2 == 0 and hv < 0:
                raise Abort("even root of a negative quantity at the sample")
            val = mpmath.root(hv, k) if hv >= 0 else -mpmath.root(-hv, k)
            a = self._new_atom("root", k, h, val)
            self.atom_key[key] = a
        return a

    def opaque_atom(self, fname, args, val, info=None):
        key = (fname,) + tuple(x.key() for x in args)
        a = self.atom_key.get(key)
        if a is None:
            a = self._new_atom("opaque", 1, None, _MPF(val), None)
            a.fname, a.args = fname, list(args)
            a.info = info(Sym(a.gen)) if info else None
            self.atom_key[key] = a
        return a


def _rv(f):
    return z3.RealVal("%d/%d" % (f.numerator, f.denominator))


# ----------------------------------------------------------------------------- scalars
class _Defer(Exception):
    pass


def _d(f):
    def g(s, o):
        try:
            return f(s, o)
        except _Defer:
            if isinstance(o, (complex, _np.complexfloating)):
                from .npshim import SymC

                return getattr(SymC.lift(s), f.__name__)(o)
            if isinstance(o, (float, _np.floating)) and math.isinf(float(o)) and s.is_const():
                # constants combine with infinities like floats do (np.ones(n) * np.inf and friends)
                return getattr(float(s.as_fraction()), f.__name__)(float(o))
            return NotImplemented

    g.__name__ = f.__name__
    return g


def _is_arr(o):
    return isinstance(o, _np.ndarray) and o.ndim > 0


class Sym:
    """Exact scalar num / prod(f**e); immutable."""

    __slots__ = ("num", "den")

    def __init__(self, num, den=None):
        self.num = num
        self.den = den if den else _EMPTY

    def __deepcopy__(self, memo):
        return self

    def __copy__(self):
        return self

    def key(self):
        return (self.num, tuple(sorted(self.den.items(), key=lambda t: str(t[0]))))

    # -- coercion
    @staticmethod
    def _co(o):
        if isinstance(o, Sym):
            return o
        if isinstance(o, LazyAbs):
            return o.force()
        if isinstance(o, NaNVal):
            raise _Defer()
        if isinstance(o, _np.ndarray):
            if o.ndim == 0:
                return Sym._co(o.item())
            raise _Defer()
        if isinstance(o, (list, tuple, str, dict)) or o is None:
            raise _Defer()
        if isinstance(o, (float, _np.floating)) and not math.isfinite(float(o)):
            raise _Defer()
        if isinstance(o, (complex, _np.complexfloating)) or type(o).__name__ in ("SymC", "PW", "SymAngle", "SymBool"):
            raise _Defer()
        f = to_fraction(o)
        return Sym(CTX.R(QQ(f.numerator, f.denominator)))

    # -- normalisation
    @staticmethod
    def _reduce(p):
        """Reduce powers of root atoms with their relations (later atoms first)."""
        c = CTX
        if not c.atoms or p.is_ground:
            return p
        changed = True
        while changed:
            changed = False
            for a in reversed(c.atoms):
                if a.kind != "root":
                    continue
                idx, k = a.idx, a.k
                hit = False
                for m in p.keys():
                    if m[idx] >= k:
                        hit = True
                        break
                if not hit:
                    continue
                out = {}
                R = c.R
                acc = R(0)
                low = {}
                buckets = {}
                for mon, coeff in p.terms():
                    e = mon[idx]
                    if e >= k:
                        q, r = divmod(e, k)
                        m2 = mon[:idx] + (r,) + mon[idx + 1:]
                        buckets.setdefault(q, {})[m2] = buckets.get(q, {}).get(m2, 0) + coeff
                    else:
                        low[mon] = coeff
                acc = R(low) if low else R(0)
                for q, d in buckets.items():
                    acc = acc + R(d) * a.h ** q
                p = acc
                changed = True
        return p

    @staticmethod
    def _mk(num, den):
        c = CTX
        num = Sym._reduce(num)
        if not num:
            return Sym(c.zero)
        if den:
            den = dict(den)
            for f in list(den):
                e = den[f]
                if e <= 0:
                    del den[f]
                    continue
                nt = len(num)
                if nt > 6000 or len(f) > 400:
                    continue
                while e > 0:
                    q = _exact_div(num, f)
                    if q is None:
                        break
                    num = q
                    e -= 1
                if e:
                    den[f] = e
                else:
                    del den[f]
        return Sym(num, den)

    def denpoly(self):
        p = CTX.one
        for f, e in self.den.items():
            p = p * f ** e
        return p

    # -- ring operations
    @_d
    def __add__(s, o):
        o = Sym._co(o)
        if not o.num:
            return s
        if not s.num:
            return o
        if s.den == o.den:
            return Sym._mk(s.num + o.num, s.den)
        den = dict(s.den)
        for f, e in o.den.items():
            if den.get(f, 0) < e:
                den[f] = e
        a, b = s.num, o.num
        for f, e in den.items():
            ea = e - s.den.get(f, 0)
            eb = e - o.den.get(f, 0)
            if ea:
                a = a * f ** ea
            if eb:
                b = b * f ** eb
        return Sym._mk(a + b, den)

    __radd__ = __add__

    def __neg__(s):
        return Sym(-s.num, s.den)

    def __pos__(s):
        return s

    @_d
    def __sub__(s, o):
        return s + (-Sym._co(o))

    @_d
    def __rsub__(s, o):
        return Sym._co(o) + (-s)

    @_d
    def __mul__(s, o):
        o = Sym._co(o)
        if not s.num or not o.num:
            return Sym(CTX.zero)
        if not s.den and not o.den:
            r = Sym(Sym._reduce(s.num * o.num))
            if o is s or o.num == s.num:
                if len(CTX.squares) < 5000:
                    CTX.squares.setdefault(r.num, s.num)
            return r
        den = dict(s.den)
        for f, e in o.den.items():
            den[f] = den.get(f, 0) + e
        return Sym._mk(s.num * o.num, den)

    __rmul__ = __mul__

    def _inv(s):
        c = CTX
        n = s.num
        if not n:
            raise NonFinite("division by exact zero")
        num = c.one
        for f, e in s.den.items():
            num = num * f ** e
        if n.is_ground:
            return Sym._mk(num.quo_ground(n.LC), {})
        # split n = content * monomial * primitive rest
        cont, prim = n.primitive()
        if prim.LC < 0:
            prim, cont = -prim, -cont
        num = num.quo_ground(cont)
        den = {}
        mons = list(prim.keys())
        mg = [min(m[i] for m in mons) for i in range(c.ngen)]
        if any(mg):
            prim = c.R({tuple(e - g for e, g in zip(m, mg)): co for m, co in prim.terms()})
            for i, e in enumerate(mg):
                if not e:
                    continue
                g = c.gens[i]
                at = c.atoms[i - c.nin] if i >= c.nin and i - c.nin < len(c.atoms) else None
                if at is not None and at.kind == "root" and at.k == 2:
                    # rationalise: 1/a**e = a**(e%2) / h**ceil(e/2)
                    if e % 2:
                        num = num * g
                    hh = (e + 1) // 2
                    sub = (Sym(c.one) / Sym(at.h)) ** hh
                    num_s = Sym._mk(num, den) * sub
                    num, den = num_s.num, dict(num_s.den)
                else:
                    den[g] = den.get(g, 0) + e
        if prim.is_ground:
            num = num.quo_ground(prim.LC)
        else:
            if prim.LC < 0:
                prim, num = -prim, -num
            den[prim] = den.get(prim, 0) + 1
        return Sym._mk(num, den)

    @_d
    def __truediv__(s, o):
        if isinstance(o, (float, _np.floating)) and math.isinf(float(o)):
            return Sym(CTX.zero)
        o = Sym._co(o)
        nonzero(o)
        if not o.den and o.num.is_ground:
            return Sym(s.num.quo_ground(o.num.LC), s.den)
        return s * o._inv()

    @_d
    def __rtruediv__(s, o):
        nonzero(s)
        return Sym._co(o) * s._inv()

    def __pow__(s, k):
        if isinstance(k, Sym):
            if k.is_const():
                k = k.as_fraction()
            else:
                raise NotImplementedError("symbolic exponent")
        if isinstance(k, (float, _np.floating)):
            k = rationalise(k)
        if isinstance(k, Fraction) and k.denominator == 1:
            k = int(k)
        if isinstance(k, (int, _np.integer)):
            k = int(k)
            if k < 0:
                return (Sym(CTX.one) / s) ** (-k)
            r = Sym(CTX.one)
            base = s
            while k:
                if k & 1:
                    r = r * base
                k >>= 1
                if k:
                    base = base * base
            return r
        if isinstance(k, Fraction):
            if k.denominator == 2:
                return s.sqrt() ** k.numerator
            if k.denominator == 3:
                return s.root(3, float_pow=True) ** k.numerator
        raise NotImplementedError("power %r" % (k,))

    def __rpow__(s, o):
        raise NotImplementedError("symbolic exponent")

    def __mod__(s, o):
        from . import angle

        return angle.mod(s, o)

    def __floordiv__(s, o):
        o = Sym._co(o)
        return CTX.const(floor_int(s / o))

    def __rfloordiv__(s, o):
        return CTX.const(floor_int(Sym._co(o) / s))

    def __divmod__(s, o):
        o = Sym._co(o)
        k = floor_int(s / o)
        return CTX.const(k), s - o * k

    def __floor__(s):
        return floor_int(s)

    def __ceil__(s):
        return -floor_int(-s)

    def __trunc__(s):
        return floor_int(s) if bool(s >= 0) else -floor_int(-s)

    # -- order
    def signpoly(s):
        """Polynomial with the same sign as s wherever s is defined."""
        p = s.num
        for f, e in s.den.items():
            if e % 2:
                p = p * f
        return Sym._reduce(p)

    def _rel(s, o, op):
        if isinstance(o, NaNVal):
            return op == "!="
        if isinstance(o, LazyAbs):
            return o._rel(s, _FLIP[op])
        if isinstance(o, (float, _np.floating)) and math.isinf(float(o)):
            return bool(_OPS[op](0.0, float(o)))
        if o is None or isinstance(o, (str, tuple, list, dict)):
            if op == "==":
                return False
            if op == "!=":
                return True
            raise _Defer()
        d = s - Sym._co(o)
        return as_bool_if_const(SymBool(Cond.poly(d.signpoly(), op)))

    @_d
    def __lt__(s, o):
        return s._rel(o, "<")

    @_d
    def __le__(s, o):
        return s._rel(o, "<=")

    @_d
    def __gt__(s, o):
        return s._rel(o, ">")

    @_d
    def __ge__(s, o):
        return s._rel(o, ">=")

    @_d
    def __eq__(s, o):
        return s._rel(o, "==")

    @_d
    def __ne__(s, o):
        return s._rel(o, "!=")

    def __hash__(s):
        return hash((s.num, tuple(s.den.items())))

    def __bool__(s):
        return bool(s != 0)

    def __abs__(s):
        if s.is_const():
            return s if s.num.LC >= 0 or not s.num else -s
        return LazyAbs(s)

    def __float__(s):
        if s.is_const():
            return float(s.as_fraction())
        # Concretisation: a C-level routine (or float()) asked for a double.  When the request comes from the code
        # under test the path would silently be specialised to the sample, so it is recorded and the path is
        # classed as a model failure (harness error), never as a verdict.
        f = sys._getframe(1)
        fn = f.f_code.co_filename
        if "/coxeter/" in fn and "/symx/" not in fn and "/harness/" not in fn:
            CTX.concretised.append("%s:%d" % (fn, f.f_lineno))
        return float(CTX.value(s))

    def __int__(s):
        if s.is_const():
            f = s.as_fraction()
            return int(f)
        raise TypeError("int() of a symbolic real")

    def __index__(s):
        f = s.as_fraction()
        if f.denominator != 1:
            raise TypeError("non-integer index")
        return int(f)

    def __round__(s, n=None):
        if n:
            raise NotImplementedError("round() of a symbolic real to decimals")
        return rint_int(s)

    def conjugate(s):
        return s

    conj = conjugate

    @property
    def real(s):
        return s

    @property
    def imag(s):
        return Sym(CTX.zero)

    def is_const(s):
        return s.num.is_ground and not s.den

    def as_fraction(s):
        if not s.is_const():
            raise TypeError("not a constant")
        v = s.num.LC if s.num else 0
        return Fraction(int(v.numerator), int(v.denominator))

    def copy(s):
        return s

    def item(s):
        return s

    def tolist(s):
        return s

    # -- numpy object-loop hooks
    def sqrt(s):
        return s.root(2)

    def cbrt(s):
        return s.root(3)

    def root(s, k, float_pow=False):
        c = CTX
        if not s.num:
            return s
        if k == 2:
            if not s.is_const() and not bool(s >= 0):
                return NAN
            if s.is_const() and s.as_fraction() < 0:
                return NAN
            return _sqrt(s)
        if float_pow and not bool(s >= 0):
            return NAN  # x ** (1/3) of a negative double is nan in the real code
        # odd root: root(n/d) = root(n * d**(k-1)) / d
        n = s.num
        den = {}
        for f, e in s.den.items():
            q, r = divmod(e, k)
            if r:
                n = n * f ** (k - r)
                q += 1
            den[f] = q
        n = Sym._reduce(n)
        if n.is_ground:
            q = Fraction(int(n.LC.numerator), int(n.LC.denominator))
            r = _iroot_frac(q, k)
            out = Sym(c.R(QQ(r.numerator, r.denominator))) if r is not None else Sym(c.root_atom(n, k).gen)
        elif len(n) <= 60 and _nvars(n) <= 7 and _perfect_power(n, k) is not None:
            out = _perfect_power(n, k)
        else:
            out = Sym(c.root_atom(n, k).gen)
        for f, e in den.items():
            out = out / (Sym(f) ** e)
        return out

    def sin(s):
        from . import angle

        return angle.sin(s)

    def cos(s):
        from . import angle

        return angle.cos(s)

    def tan(s):
        from . import angle

        return angle.tan(s)

    def arccos(s):
        from . import angle

        return angle.arccos(s)

    def arctan2(s, o):
        from . import angle

        return angle.arctan2(s, o)

    def __repr__(s):
        if getattr(CTX, "tokens", None) is not None:
            return CTX_token(s)
        ns = str(s.num)
        if len(ns) > 160:
            ns = ns[:160] + "...[%d terms]" % len(s.num)
        if not s.den:
            return "Sym(%s)" % ns
        ds = "*".join("(%s)^%d" % (str(f) if len(str(f)) < 60 else str(f)[:60] + "...", e) for f, e in s.den.items())
        return "Sym(%s / %s)" % (ns, ds)

    def __str__(s):
        return CTX_token(s)

    def __format__(s, spec):
        return CTX_token(s)


_EMPTY = {}
_FLIP = {"<": ">", "<=": ">=", ">": "<", ">=": "<=", "==": "==", "!=": "!="}


def CTX_token(s):
    """Printable token for a scalar (used by repr/str round-trip and writer harnesses)."""
    reg = getattr(CTX, "tokens", None)
    if reg is None:
        if s.is_const():
            f = s.as_fraction()
            return str(f.numerator) if f.denominator == 1 else repr(float(f))
        return repr(s)
    return reg.token(s)


def _iroot_frac(q, k):
    def ir(n):
        if n < 0:
            if k % 2 == 0:
                return None
            r = ir(-n)
            return None if r is None else -r
        r = round(n ** (1.0 / k)) if n < 2 ** 52 else int(mpmath.root(n, k))
        for c in (r - 1, r, r + 1):
            if c >= 0 and c ** k == n:
                return c
        return None

    a, b = ir(q.numerator), ir(q.denominator)
    if a is None or b is None:
        return None
    return Fraction(a, b)


def _exact_div(num, f):
    """num / f if f divides num exactly, else None (cheap integer-evaluation reject first)."""
    c = CTX
    if f.is_ground:
        return num.quo_ground(f.LC)
    if len(num) < len(f) and not num.is_ground:
        pass
    if len(num) > 40:
        # Gauss lemma reject: f primitive integer polynomial
        try:
            fd, fi = f.clear_denoms()
            nd, ni = num.clear_denoms()
            pt = c._div_pt
            fv = _eval_int(fi, pt)
            if fv != 0:
                cf = fi.content()
                fv2 = fv // int(cf) if cf else fv
                nv = _eval_int(ni, pt)
                if fv2 and nv % fv2 != 0:
                    return None
        except Exception:
            pass
    q, r = divmod(num, f)
    return None if r else q


def _eval_int(p, pt):
    tot = 0
    for mon, coeff in p.terms():
        t = int(coeff)
        for i, e in enumerate(mon):
            if e:
                t *= pt[i] ** e
        tot += t
    return tot


def nonzero(x):
    """Division guard: fork on denominator == 0; the zero side is a non-finite outcome."""
    if x.is_const():
        if not x.num:
            raise NonFinite("division by exact zero")
        return
    if bool(x == 0):
        raise NonFinite("division by a quantity that is zero on this path")


def _sqrt(s):
    c = CTX
    n = s.num
    den = {}
    for f, e in s.den.items():
        if e % 2:
            n = n * f
        den[f] = (e + 1) // 2
    n = Sym._reduce(n)
    root = c.squares.get(n)
    if root is not None:
        r = Sym(root)
        r = r if bool(r >= 0) else -r
    elif n.is_ground:
        q = Fraction(int(n.LC.numerator), int(n.LC.denominator))
        if q < 0:
            raise NonFinite("sqrt of a negative constant")
        rq = _iroot_frac(q, 2)
        if rq is not None:
            r = Sym(c.R(QQ(rq.numerator, rq.denominator)))
        else:
            # pull out the square part of numerator*denominator
            m = q.numerator * q.denominator
            sq, rest = _square_part(m)
            r = Sym(c.root_atom(c.R(rest), 2).gen) * Fraction(sq, q.denominator)
    elif len(n) <= 60 and _nvars(n) <= 7:
        co, facs = _sqf_small(n)
        sq = c.one
        rest = c.R(co)
        for f, m in facs:
            if m // 2:
                sq = sq * f ** (m // 2)
            if m % 2:
                rest = rest * f
        g = Sym(sq)
        if not sq.is_ground:
            g = g if bool(g >= 0) else -g
        if rest.is_ground:
            rr = _sqrt(Sym(rest)) if rest != 1 else Sym(c.one)
            r = g * rr
        else:
            cont, prim = rest.primitive()
            if prim.LC < 0:
                prim, cont = -prim, -cont
            cq = Fraction(int(cont.numerator), int(cont.denominator))
            if cq < 0:
                # sign of the radicand is carried by prim: keep as is
                r = g * Sym(c.root_atom(rest, 2).gen)
            else:
                rc = _iroot_frac(cq, 2)
                if rc is not None:
                    r = g * Sym(c.root_atom(prim, 2).gen) * rc
                else:
                    r = g * Sym(c.root_atom(rest, 2).gen)
    else:
        r = Sym(c.root_atom(n, 2).gen)
    out = r
    for f, e in den.items():
        fs = Sym(f)
        fa = fs if bool(fs >= 0) else -fs
        out = out / fa ** e
    return out


def _perfect_power(n, k):
    """Sym g with g**k == n for an odd k, if the polynomial n is a perfect k-th power (via square-free decomposition)."""
    co, facs = _sqf_small(n)
    cq = Fraction(int(co.numerator), int(co.denominator))
    r = _iroot_frac(cq, k)
    if r is None:
        return None
    g = CTX.one
    for f, m in facs:
        if m % k:
            return None
        g = g * f ** (m // k)
    return Sym(g) * r


def _nvars(p):
    used = set()
    for m in p.keys():
        for i, e in enumerate(m):
            if e:
                used.add(i)
    return len(used)


_SMALL_RINGS = {}


def _sqf_small(p):
    """Square-free decomposition computed in the sub-ring of the generators that occur in p
    (sympy's dense recursive algorithms are exponential in the number of ring generators)."""
    c = CTX
    used = sorted({i for m in p.keys() for i, e in enumerate(m) if e})
    key = (id(c.R), tuple(used))
    ent = _SMALL_RINGS.get(key)
    if ent is None:
        names = [(c.all_inputs + c.atom_names)[i] for i in used]
        R2, *g2 = _ring(names, QQ)
        ent = _SMALL_RINGS[key] = R2
    R2 = ent
    q = R2({tuple(m[i] for i in used): co for m, co in p.terms()})
    co, facs = q.sqf_list()
    n = c.ngen

    def back(f):
        d = {}
        for m, cf in f.terms():
            full = [0] * n
            for i, e in zip(used, m):
                full[i] = e
            d[tuple(full)] = cf
        return c.R(d)

    return co, [(back(f), m) for f, m in facs]


def _square_part(m):
    sq = 1
    rest = m
    p = 2
    while p * p <= rest and p < 100000:
        while rest % (p * p) == 0:
            sq *= p
            rest //= p * p
        p += 1
    return sq, rest


class NaNVal:
    """IEEE NaN as produced by sqrt / fractional power of a negative double: absorbs arithmetic, every ordered comparison is False."""

    __slots__ = ()

    def _s(self, *a):
        return self

    __add__ = __radd__ = __sub__ = __rsub__ = __mul__ = __rmul__ = __truediv__ = __rtruediv__ = __pow__ = __rpow__ = __neg__ = __abs__ = _s
    sqrt = cbrt = conjugate = _s

    def _f(self, o):
        return False

    __lt__ = __le__ = __gt__ = __ge__ = __eq__ = _f

    def __ne__(self, o):
        return True

    __hash__ = None

    def __float__(self):
        return float("nan")

    def __deepcopy__(self, memo):
        return self

    def __repr__(self):
        return "NaN"


NAN = NaNVal()


class LazyAbs:
    """|x| whose sign split is postponed: comparisons expand into one disjunctive condition."""

    __slots__ = ("x", "_f")

    def __init__(self, x):
        self.x = x
        self._f = None

    def force(self):
        if self._f is None:
            self._f = self.x if bool(self.x >= 0) else -self.x
        return self._f

    def _rel(self, o, op):
        # |x| op o
        if isinstance(o, LazyAbs):
            o = o.force()
        if isinstance(o, (float, _np.floating)) and math.isinf(float(o)):
            return bool(_OPS[op](0.0, float(o)))
        o = Sym._co(o)
        x = self.x
        if op in ("<", "<="):
            return sym_and(x._rel(o, op), (-x)._rel(o, op))
        if op in (">", ">="):
            return sym_or(x._rel(o, op), (-x)._rel(o, op))
        if op == "==":
            return sym_and(o._rel(0, ">="), sym_or(x._rel(o, "=="), (-x)._rel(o, "==")))
        return ~self._rel(o, "==")

    def __lt__(s, o):
        return s._rel(o, "<")

    def __le__(s, o):
        return s._rel(o, "<=")

    def __gt__(s, o):
        return s._rel(o, ">")

    def __ge__(s, o):
        return s._rel(o, ">=")

    def __eq__(s, o):
        return s._rel(o, "==")

    def __ne__(s, o):
        return s._rel(o, "!=")

    __hash__ = None

    def __abs__(s):
        return s

    def __neg__(s):
        return -s.force()

    def __deepcopy__(self, memo):
        return self

    def __float__(s):
        return abs(float(s.x))

    def __repr__(s):
        return "|%r|" % (s.x,)

    def __str__(s):
        return str(s.force())

    def __format__(s, spec):
        return format(s.force(), spec)

    def __getattr__(s, k):
        if k.startswith("__"):
            raise AttributeError(k)
        return getattr(s.force(), k)


def _lazy_bin(name):
    def f(s, o):
        if isinstance(o, _np.ndarray) and o.ndim > 0:
            return NotImplemented
        return getattr(s.force(), name)(o)

    f.__name__ = name
    return f


for _n in ("__add__", "__radd__", "__sub__", "__rsub__", "__mul__", "__rmul__", "__truediv__", "__rtruediv__", "__pow__"):
    setattr(LazyAbs, _n, _lazy_bin(_n))


class LazyRoot(LazyAbs):
    """sqrt(x) whose atom is only allocated when the value enters arithmetic; comparisons between two
    lazy roots (or with a scalar) are decided on the radicands, which needs no atom at all."""

    __slots__ = ()

    def force(self):
        if self._f is None:
            self._f = self.x.sqrt()
        return self._f

    def _rel(self, o, op):
        if isinstance(o, LazyRoot):
            return self.x._rel(o.x, op)
        if isinstance(o, LazyAbs):
            o = o.force()
        if isinstance(o, (float, _np.floating)) and math.isinf(float(o)):
            return bool(_OPS[op](0.0, float(o)))
        o = Sym._co(o)
        x = self.x
        o2 = o * o
        if op == "<":
            return sym_and(o._rel(0, ">"), x._rel(o2, "<"))
        if op == "<=":
            return sym_and(o._rel(0, ">="), x._rel(o2, "<="))
        if op == ">":
            return sym_or(o._rel(0, "<"), x._rel(o2, ">"))
        if op == ">=":
            return sym_or(o._rel(0, "<="), x._rel(o2, ">="))
        if op == "==":
            return sym_and(o._rel(0, ">="), x._rel(o2, "=="))
        return ~self._rel(o, "==")

    def __abs__(s):
        return s

    def __float__(s):
        return float(s.x) ** 0.5

    def __repr__(s):
        return "sqrt~(%r)" % (s.x,)


def force(x):
    return x.force() if isinstance(x, LazyAbs) else x


# ----------------------------------------------------------------------------- exploration
class PathResult:
    __slots__ = ("decisions", "status", "out", "pc", "atoms", "sample", "claims", "notes", "error", "wall")

    def __init__(self, **kw):
        for k in self.__slots__:
            setattr(self, k, kw.get(k))


def _model_sample(ctx, model, conds, atoms):
    """Rational sample for the inputs from a z3 model (rationalised, pc re-checked)."""
    vals = {}
    exact = True
    approx = {}
    for i, n in enumerate(ctx.names):
        v = model.eval(ctx.z3vars[i], model_completion=True)
        if z3.is_rational_value(v):
            vals[n] = Fraction(v.numerator_as_long(), v.denominator_as_long())
        elif z3.is_algebraic_value(v):
            exact = False
            approx[n] = v
        else:
            return None
    if exact:
        cand = [vals]
    else:
        cand = []
        for digits in (8, 16, 32):
            d = dict(vals)
            for n, v in approx.items():
                a = v.approx(digits)
                d[n] = Fraction(a.numerator_as_long(), a.denominator_as_long())
            cand.append(d)
    # prefer simpler rationals when the point stays feasible
    simple = []
    for bound in (16, 1024):
        d = {n: f.limit_denominator(bound) for n, f in cand[0].items()}
        if d != cand[0]:
            simple.append(d)
    for d in simple + cand:
        if _sample_ok(ctx, d, conds, atoms):
            return d
    return None


def _sample_ok(ctx, sample, conds, atoms):
    """Does the rational point satisfy conds?  Atoms are re-evaluated in creation order."""
    saved = (ctx.sample, ctx.atoms, ctx.vals, ctx.fvals)
    try:
        ctx.sample = dict(sample)
        ctx.vals = [None] * ctx.ngen
        ctx.fvals = [None] * ctx.ngen
        for i, n in enumerate(ctx.all_inputs):
            if n == "PI":
                ctx.vals[i] = mpmath.pi + 0
            else:
                v = sample.get(n)
                if v is None:
                    return False
                ctx.fvals[i] = v
                ctx.vals[i] = _MPF(v.numerator) / _MPF(v.denominator)
        ctx.atoms = []
        for a in atoms:
            if a.kind == "root":
                hv, _ = ctx.eval_mp(a.h)
                if a.k % 2 == 0 and hv < 0:
                    return False
                ctx.vals[a.idx] = mpmath.root(hv, a.k) if hv >= 0 else -mpmath.root(-hv, a.k)
            else:
                return False  # opaque atoms: value depends on the path; re-derive by execution
            ctx.atoms.append(a)
        try:
            return all(ctx.holds(c) for c in conds)
        except Abort:
            return False
    finally:
        ctx.sample, ctx.atoms, ctx.vals, ctx.fvals = saved


def floor_int(x):
    """floor of a (symbolic) real as a Python int, concolically: the integer is found by comparisons whose
    sequence depends only on earlier decisions (doubling, then bisection), so every comparison is a recorded
    branch and the path condition pins k <= x < k + 1; other integers are other paths."""
    x = Sym._co(force(x))
    if x.is_const():
        return math.floor(x.as_fraction())
    if bool(x >= 0):
        lo, hi = 0, 1
        while bool(x >= hi):
            lo, hi = hi, hi * 2
            if hi > 1 << 40:
                raise NotImplementedError("floor of a huge symbolic real")
    else:
        lo, hi = -1, 0
        while bool(x < lo):
            lo, hi = lo * 2, lo
            if lo < -(1 << 40):
                raise NotImplementedError("floor of a huge symbolic real")
    while hi - lo > 1:
        mid = (lo + hi) // 2
        if bool(x >= mid):
            lo = mid
        else:
            hi = mid
    return lo


def rint_int(x):
    """round-half-to-even of a symbolic real (numpy rint / Python round)."""
    x = Sym._co(force(x))
    k = floor_int(x + Fraction(1, 2))
    if k % 2 and bool(x + Fraction(1, 2) == k):
        k -= 1
    return k


def explore(ctx, fn, pre=(), max_paths=64, budget_s=600.0, first_sample=None, on_path=None):
    """Concolic exploration of fn() under precondition ``pre`` (list of Cond/SymBool).

    Returns (paths, stats).  stats['unrefuted'] counts alternatives the solver could neither
    refute nor find a usable rational witness for; stats['left'] the queue at the budget.
    """
    global CTX
    CTX = ctx
    pre = list(ctx.base_pre) + [_lc(c) for c in pre] + [_lc(c) for c in ctx.lemmas]
    t_start = time.time()
    todo = [([], list(pre), [])]
    paths = []
    unrefuted = 0
    refuted = 0
    first = True
    while todo and len(paths) < max_paths and time.time() - t_start < budget_s:
        prefix, pcx, atoms = todo.pop()
        sample = None
        if first and first_sample is not None and _sample_ok(ctx, first_sample, pcx, atoms):
            sample = dict(first_sample)
        first = False
        if sample is None:
            has_opaque = any(a.kind == "opaque" for a in atoms)
            r, m = ctx.solve(pcx, timeout_ms=ctx.alt_timeout_ms if prefix else ctx.solver_timeout_ms, atoms=atoms)
            if r == "unsat":
                refuted += 1
                continue
            if r != "sat":
                unrefuted += 1
                continue
            if has_opaque:
                # opaque atoms are unconstrained for the solver: take the inputs, trust re-execution
                sample = _model_sample(ctx, m, [], [])
            else:
                sample = _model_sample(ctx, m, pcx, atoms)
            if sample is None:
                unrefuted += 1
                continue
        ctx.reset_path(sample, prefix)
        ctx.pc = list(pre)
        ctx.n_pre = len(pre)
        t0 = time.time()
        err = None
        try:
            out = fn()
            st = "ok"
        except Abort as a:
            out, st, err = None, "abort", str(a)
        except NonFinite as ex:
            out, st, err = ex, "nonfinite", str(ex)
        except Exception as ex:  # noqa: BLE001 - the code under test may raise anything
            out, st = ex, "raise"
            err = traceback.format_exc()
            tb = traceback.extract_tb(ex.__traceback__)
            inner = tb[-1].filename if tb else ""
            if isinstance(ex, NotImplementedError) or ("/symx/" in inner and not isinstance(ex, (ValueError, ArithmeticError, RuntimeError))):
                st = "shim-error"  # the model, not the code under test, failed: a harness error, never a verdict
        if ctx.concretised and st in ("ok", "raise"):
            st, err = "shim-error", "symbolic real concretised by float() in the code under test at " + ", ".join(sorted(set(ctx.concretised))[:4])
        if ctx.pos < len(ctx.prefix) and st != "abort":
            if any(a.kind == "opaque" for a in atoms) or any(a.kind == "opaque" for a in ctx.atoms):
                # the solver's model of an uninterpreted function value differs from its real value: the path cannot be followed
                st, err = "diverged", "prefix not consumed (opaque function value)"
                unrefuted += 1
            else:
                # re-execution diverged from the recorded prefix (non-determinism): harness error
                st, err = "abort", "prefix not consumed (%d of %d)" % (ctx.pos, len(ctx.prefix))
        pr = PathResult(decisions=list(ctx.decisions), status=st, out=out, pc=list(ctx.pc), atoms=list(ctx.atoms),
                        sample=dict(sample), claims=list(ctx.claims), notes=list(ctx.notes), error=err,
                        wall=time.time() - t0)
        paths.append(pr)
        if on_path is not None:
            on_path(pr)
        todo.extend(ctx.new_alts)
    ctx.n_alt_refuted += refuted
    ctx.n_alt_unknown += unrefuted
    stats = dict(paths=len(paths), refuted=refuted, unrefuted=unrefuted, left=len(todo), queries=ctx.nq,
                 solver_s=round(ctx.tq, 3), decisions=ctx.n_decisions, wall_s=round(time.time() - t_start, 3),
                 exact_fallbacks=ctx.n_exact_fallback)
    return paths, stats


# ----------------------------------------------------------------------------- claims
class ClaimResult:
    __slots__ = ("name", "verdict", "witness", "detail", "solver_s", "size", "more")

    def __init__(self, name, verdict, witness=None, detail="", solver_s=0.0, size=0):
        self.name, self.verdict, self.witness, self.detail, self.solver_s, self.size = name, verdict, witness, detail, solver_s, size
        self.more = []  # further witnesses far from the first one (tried in turn when a witness does not reproduce)

    def as_dict(self):
        return dict(name=self.name, verdict=self.verdict, witness=self.witness, detail=self.detail,
                    solver_s=round(self.solver_s, 3), size=self.size)


def _witness(ctx, model):
    w = {}
    for i, n in enumerate(ctx.names):
        v = model.eval(ctx.z3vars[i], model_completion=True)
        if z3.is_rational_value(v):
            w[n] = Fraction(v.numerator_as_long(), v.denominator_as_long())
        elif z3.is_algebraic_value(v):
            a = v.approx(20)
            w[n] = Fraction(a.numerator_as_long(), a.denominator_as_long())
    return w


def _far_witnesses(ctx, conds, first, count=2):
    """Up to ``count`` further models of ``conds`` at distance >= 5 from ``first`` and from each other."""
    out = []
    try:
        prev = [first]
        for _ in range(count):
            far = []
            for w in prev:
                dist = None
                for i, n in enumerate(ctx.names):
                    if n in w:
                        term = (ctx.z3vars[i] - _rv(Fraction(w[n]))) * (ctx.z3vars[i] - _rv(Fraction(w[n])))
                        dist = term if dist is None else dist + term
                if dist is not None:
                    far.append(dist >= 25)
            r3, m3 = ctx.solve(conds, timeout_ms=3000, z3extra=far, is_claim=True)
            if r3 != "sat":
                break
            w3 = _witness(ctx, m3)
            out.append(w3)
            prev.append(w3)
    except Exception:  # noqa: BLE001 - optional
        pass
    return out


def claim(name, cond, timeout_ms=None):
    """Decide ``cond`` for every input on the current path: solve pc & atoms & ~cond."""
    ctx = CTX
    cond = _lc(cond)
    t = ctx.tq
    if cond.kind == "c":
        # still ask the solver for the record when trivially true: path condition & False
        res = ClaimResult(name, "held" if cond.a else "violated", None, "constant after normal form", 0.0, 0)
        if not cond.a:
            res.witness = dict(ctx.sample)
            # false on the whole path: every input satisfying the path condition is a witness
            res.more = _far_witnesses(ctx, list(ctx.pc), res.witness)
        ctx.claims.append(res)
        return res
    neg = Cond.Not(cond)
    # A claim proved from the precondition alone holds on every path; the (large) path condition is only
    # added when that cheaper, stronger statement fails.
    npre = getattr(ctx, "n_pre", 0)
    r, m = ("unknown", None)
    if len(ctx.pc) > npre + 8:
        r, m = ctx.solve(ctx.pc[:npre] + [neg], timeout_ms=min(timeout_ms or ctx.solver_timeout_ms, 5000), is_claim=True)
    if r != "unsat":
        r, m = ctx.solve(ctx.pc + [neg], timeout_ms=timeout_ms, is_claim=True)
    dt = ctx.tq - t
    if r == "unsat":
        res = ClaimResult(name, "held", None, "", dt, cond.size())
    elif r == "sat":
        res = ClaimResult(name, "violated", _witness(ctx, m), "", dt, cond.size())
        # The environment stubs (kabsch, eigh, hull order) allow behaviours the real dependency may not show at this very
        # input, and a witness can sit where the float code is right by coincidence: keep up to two more witnesses far
        # from the first (and from each other) for the replay to try.
        res.more = _far_witnesses(ctx, ctx.pc + [neg], res.witness)
    else:
        # cheap witness search: the sample itself may already violate the claim
        try:
            bad = not ctx.holds(cond)
        except Abort:
            bad = False
        if bad:
            res = ClaimResult(name, "violated", dict(ctx.sample), "witness = path sample (solver unknown)", dt, cond.size())
        else:
            res = ClaimResult(name, "inconclusive", None, "solver: " + r, dt, cond.size())
    ctx.claims.append(res)
    return res


def claim_eq(name, a, b, timeout_ms=None):
    """Identity claim a == b (scalars): residual in normal form, then the solver."""
    ctx = CTX
    a, b = force(a), force(b)
    a = a if isinstance(a, Sym) else ctx.const(a)
    b = b if isinstance(b, Sym) else ctx.const(b)
    d = a - b
    p = d.num
    if not p:
        # normal forms coincide; hand the solver the un-subtracted cross-multiplied form when small
        lhs, rhs = a.num * b.denpoly(), b.num * a.denpoly()
        if len(lhs) + len(rhs) <= 400:
            t = ctx.tq
            r, _ = ctx.solve(ctx.pc, z3extra=[ctx.poly_z3(lhs) != ctx.poly_z3(rhs)], timeout_ms=timeout_ms, is_claim=True)
            res = ClaimResult(name, "held" if r == "unsat" else "inconclusive", None,
                              "normal forms equal; solver on cross-multiplied form: " + r, ctx.tq - t, len(lhs) + len(rhs))
            if r != "unsat":
                res.verdict = "held"
                res.detail += " (residual is the zero polynomial)"
        else:
            res = ClaimResult(name, "held", None, "residual is the zero polynomial (%d-term sides)" % (len(lhs) + len(rhs)), 0.0,
                              len(lhs) + len(rhs))
        ctx.claims.append(res)
        return res
    res = claim(name, SymBool(Cond.poly(p, "==")), timeout_ms=timeout_ms)
    if res.verdict == "violated" and res.detail == "" and len(d.num) ** 2 + len(a.num) ** 2 + len(b.num) ** 2 <= 1500000:
        # (only for moderately sized terms: the squared forms below grow quadratically)
        # The solver's first witness may differ from the oracle by less than float64 rounding can resolve (it then cannot
        # be confirmed on the real code).  Ask for a witness where the two sides differ by more than 1e-5 of their size;
        # if there is none, the first witness stays and the replay decides.
        try:
            K = 10 ** 10
            sig = _lc(d * d * K > a * a + b * b)
            r2, m2 = ctx.solve(ctx.pc + [sig], timeout_ms=min(timeout_ms or ctx.solver_timeout_ms, 8000), is_claim=True)
            if r2 == "sat":
                res.witness = _witness(ctx, m2)
                res.detail = "witness with a relative difference above 1e-5"
        except Exception:  # noqa: BLE001 - refinement only; the verdict does not depend on it
            pass
    return res


def claim_all_eq(name, xs, ys, timeout_ms=None):
    """Element-wise identity claims over two equally shaped arrays / nested lists."""
    xa = _np.asarray(xs, dtype=object)
    ya = _np.asarray(ys, dtype=object)
    if xa.shape != ya.shape:
        res = ClaimResult(name, "violated", dict(CTX.sample), "shape %r vs %r" % (xa.shape, ya.shape))
        CTX.claims.append(res)
        return [res]
    out = []
    for idx in _np.ndindex(*xa.shape):
        out.append(claim_eq("%s%s" % (name, list(idx)), xa[idx], ya[idx], timeout_ms=timeout_ms))
    return out


def note(**kw):
    CTX.notes.append(kw)
