"""Rebind module-global names of the coxeter modules (from /repo's working tree) to the shims.

No source line is changed: the function objects executed are the ones compiled from the
current sources; only the names ``np``, ``rowan``, ``ConvexHull``, ... resolve to symx.
"""
import contextlib
import importlib
import inspect
import math

from . import core, stubs, angle
from .npshim import snp

MODULES = [
    "coxeter.shapes.base_classes",
    "coxeter.shapes.utils",
    "coxeter.shapes.circle",
    "coxeter.shapes.ellipse",
    "coxeter.shapes.sphere",
    "coxeter.shapes.ellipsoid",
    "coxeter.shapes.polygon",
    "coxeter.shapes.convex_polygon",
    "coxeter.shapes.polyhedron",
    "coxeter.shapes.convex_polyhedron",
    "coxeter.shapes.convex_spheropolygon",
    "coxeter.shapes.convex_spheropolyhedron",
    "coxeter.extern.polytri.polytri",
    "coxeter.io",
    "coxeter.families.common",
    "coxeter.families.plane_shape_families",
]


def _math(name):
    real = getattr(math, name)

    def f(x):
        if isinstance(x, (core.Sym, core.LazyAbs, angle.SymAngle)):
            x = core.force(x)
            if name == "sqrt":
                return x.sqrt()
            return getattr(angle, name)(x) if isinstance(x, core.Sym) else getattr(x, name)()
        return real(x)

    return f


def _cbrt(x):
    if isinstance(x, (core.Sym, core.LazyAbs)):
        return core.force(x).root(3)
    import numpy

    return numpy.cbrt(x)


def bindings():
    return {
        "np": snp,
        "rowan": stubs.RowanStub,
        "ConvexHull": stubs.ConvexHullStub,
        "connected_components": stubs.connected_components,
        "ellipe": stubs.ellipe,
        "ellipeinc": stubs.ellipeinc,
        "ellipkinc": stubs.ellipkinc,
        "miniball": stubs.MiniballStub,
        # names imported individually by families/common.py
        "sin": _math("sin"),
        "cos": _math("cos"),
        "tan": _math("tan"),
        "sqrt": _math("sqrt"),
        "cbrt": _cbrt,
        "pi": None,  # filled per context (needs CTX)
    }


@contextlib.contextmanager
def symbolic(ctx, only=None):
    """Activate ``ctx`` and rebind the coxeter module globals for the duration of the block."""
    core.CTX = ctx
    b = bindings()
    saved = []
    for name in MODULES:
        mod = importlib.import_module(name)
        for k, v in b.items():
            if k in mod.__dict__:
                if only is not None and k not in only:
                    continue
                if k == "pi":
                    if name != "coxeter.families.common":
                        continue
                    v = _LazyPi()
                saved.append((mod, k, mod.__dict__[k]))
                mod.__dict__[k] = v
    try:
        yield ctx
    finally:
        for mod, k, v in reversed(saved):
            mod.__dict__[k] = v


class _LazyPi:
    """``pi`` imported by name: behaves like the context's PI symbol in arithmetic."""

    def _v(self):
        return core.CTX.pi

    def __mul__(self, o):
        return self._v() * o

    __rmul__ = __mul__

    def __truediv__(self, o):
        return self._v() / o

    def __rtruediv__(self, o):
        return o / self._v()

    def __add__(self, o):
        return self._v() + o

    __radd__ = __add__

    def __sub__(self, o):
        return self._v() - o

    def __rsub__(self, o):
        return o - self._v()

    def __neg__(self):
        return -self._v()


def functions_encoded(objs):
    """Names + source hashes of the real functions a harness executes (for the evidence)."""
    import hashlib

    out = []
    for o in objs:
        try:
            src = inspect.getsource(o)
            out.append("%s.%s@%s" % (o.__module__, o.__qualname__, hashlib.sha1(src.encode()).hexdigest()[:10]))
        except (OSError, TypeError):
            out.append(repr(o))
    return out
