"""C10 - Circle, Ellipse, Sphere, Ellipsoid measures equal their defining integrals.

All radii / semi-axes / centre components are free reals (> 0 for lengths), PI is a symbol.
The real getters run under symx; every ordering of the axes is a path (``sorted`` forks).
Elliptic integrals are opaque atoms: for perimeter / surface area the decided content is the
wiring (arguments, coefficients, branch) - their numerical values are outside the claim.
"""
from . import common
from .common import run_e2

LEVEL = "model_checking"
TECHNIQUE = "symbolic execution of the real getters over the reals (symx: sympy normal forms + z3 QF_NRA), all axis orderings as paths"
ASSUMPTIONS = [
    "A1 reals not floats (float literals rationalised)",
    "scipy.special.ellipe/ellipeinc/ellipkinc are opaque function symbols (hash-consed on canonical arguments)",
    "relative axis gaps of 1e-15 are outside (exact ties and strict orderings are covered)",
]


def _fn():
    from coxeter.shapes import Circle, Ellipse, Sphere, Ellipsoid
    from coxeter.shapes.base_classes import Shape2D, Shape3D
    from coxeter.shapes.utils import translate_inertia_tensor
    from symx.loader import functions_encoded

    return functions_encoded([Circle, Ellipse, Sphere, Ellipsoid, Shape2D.polar_moment_inertia.fget, Shape2D.inertia_tensor.fget,
                              Shape2D.iq.fget, Shape3D.iq.fget, translate_inertia_tensor])


def circle(H, V):
    from coxeter.shapes import Circle

    r, cx, cy, cz = V["r"], V["cx"], V["cy"], V["cz"]
    s = Circle(r, [cx, cy, cz])
    A = H.pi * r * r
    H.claim_eq("circle.area", s.area, A)
    H.claim_eq("circle.perimeter", s.perimeter, 2 * H.pi * r)
    H.claim_eq("circle.circumference", s.circumference, 2 * H.pi * r)
    H.claim_eq("circle.eccentricity", s.eccentricity, 0)
    H.claim_eq("circle.iq", s.iq, 1)
    ix, iy, ixy = s.planar_moments_inertia
    H.claim_eq("circle.planar.Ix", ix, A * r * r / 4 + A * cy * cy)  # int y^2 dA
    H.claim_eq("circle.planar.Iy", iy, A * r * r / 4 + A * cx * cx)  # int x^2 dA
    H.claim_eq("circle.planar.Ixy", ixy, A * cx * cy)
    polar = A * r * r / 2 + A * (cx * cx + cy * cy)
    H.claim_eq("circle.polar", s.polar_moment_inertia, polar)
    it = s.inertia_tensor
    H.claim_eq("circle.inertia.zz", it[2, 2], polar)
    H.claim_all_eq("circle.centroid", s.centroid, [cx, cy, cz])
    H.claim_all_eq("circle.center", s.center, [cx, cy, cz])


def ellipse(H, V):
    from coxeter.shapes import Ellipse

    a, b, cx, cy, cz = V["a"], V["b"], V["cx"], V["cy"], V["cz"]
    s = Ellipse(a, b, [cx, cy, cz])
    A = H.pi * a * b
    H.claim_eq("ellipse.area", s.area, A)
    big = a if a >= b else b
    small = b if a >= b else a
    H.claim_eq("ellipse.eccentricity^2", s.eccentricity ** 2, 1 - small * small / (big * big))
    H.claim("ellipse.eccentricity>=0", s.eccentricity >= 0)
    P = 4 * big * H.special("ellipe", 1 - small * small / (big * big))
    H.claim_eq("ellipse.perimeter", s.perimeter, P)
    H.claim_eq("ellipse.circumference", s.circumference, P)
    ix, iy, ixy = s.planar_moments_inertia
    H.claim_eq("ellipse.planar.Ix", ix, A * b * b / 4 + A * cy * cy)
    H.claim_eq("ellipse.planar.Iy", iy, A * a * a / 4 + A * cx * cx)
    H.claim_eq("ellipse.planar.Ixy", ixy, A * cx * cy)
    polar = A * (a * a + b * b) / 4 + A * (cx * cx + cy * cy)
    H.claim_eq("ellipse.polar", s.polar_moment_inertia, polar)
    H.claim_eq("ellipse.inertia.zz", s.inertia_tensor[2, 2], polar)
    q = s.iq
    H.claim("ellipse.iq<=1", q <= 1)
    raw = 4 * H.pi * A / (P * P)
    H.claim_eq("ellipse.iq=min(raw,1)", q, raw if raw <= 1 else 1)
    H.claim_all_eq("ellipse.centroid", s.centroid, [cx, cy, cz])


def sphere(H, V):
    from coxeter.shapes import Sphere

    r, cx, cy, cz = V["r"], V["cx"], V["cy"], V["cz"]
    s = Sphere(r, [cx, cy, cz])
    vol = 4 * H.pi * r ** 3 / 3
    H.claim_eq("sphere.volume", s.volume, vol)
    H.claim_eq("sphere.surface_area", s.surface_area, 4 * H.pi * r * r)
    H.claim_eq("sphere.diameter", s.diameter, 2 * r)
    H.claim_eq("sphere.iq", s.iq, 1)
    it = s.inertia_tensor
    c = [cx, cy, cz]
    n2 = cx * cx + cy * cy + cz * cz
    for i in range(3):
        for j in range(3):
            e = (vol * 2 * r * r / 5 + vol * n2 if i == j else 0) - vol * c[i] * c[j]
            H.claim_eq("sphere.inertia[%d,%d]" % (i, j), it[i, j], e)
    H.claim_all_eq("sphere.centroid", s.centroid, c)


def ellipsoid(H, V):
    from coxeter.shapes import Ellipsoid

    a, b, c, cx, cy, cz = V["a"], V["b"], V["c"], V["cx"], V["cy"], V["cz"]
    s = Ellipsoid(a, b, c, [cx, cy, cz])
    vol = 4 * H.pi * a * b * c / 3
    H.claim_eq("ellipsoid.volume", s.volume, vol)
    it = s.inertia_tensor
    ce = [cx, cy, cz]
    n2 = cx * cx + cy * cy + cz * cz
    ax2 = [a * a, b * b, c * c]
    for i in range(3):
        for j in range(3):
            if i == j:
                e = vol / 5 * (sum(ax2) - ax2[i]) + vol * (n2 - ce[i] * ce[i])
            else:
                e = -vol * ce[i] * ce[j]
            H.claim_eq("ellipsoid.inertia[%d,%d]" % (i, j), it[i, j], e)
    lo, mid, hi = sorted([a, b, c])
    S = s.surface_area
    if hi > lo:
        cosphi = lo / hi
        sinphi = H.sqrt(1 - cosphi * cosphi)
        phi = H.special("arccos", cosphi)
        m = hi * hi * (mid * mid - lo * lo) / (mid * mid * (hi * hi - lo * lo))
        E = H.special("ellipeinc", phi, m)
        F = H.special("ellipkinc", phi, m)
        Sx = 2 * H.pi * (lo * lo + hi * mid / sinphi * (E * sinphi * sinphi + F * cosphi * cosphi))
    else:
        Sx = 4 * H.pi * hi * hi
    H.claim_eq("ellipsoid.surface_area", S, Sx)
    H.claim_eq("ellipsoid.iq", s.iq, 36 * H.pi * vol * vol / (Sx ** 3))
    H.claim_all_eq("ellipsoid.centroid", s.centroid, ce)


def obligations(tier, seed):
    fns = _fn()
    stubs = ["scipy.special.ellipe/ellipeinc/ellipkinc -> opaque atoms"]
    cen = ["cx", "cy", "cz"]
    mp = 64 if tier == "quick" else 256
    return [
        ("C10/circle", lambda: run_e2("C10/circle", ["r"] + cen, circle, positive=["r"], functions=fns, max_paths=mp,
                                      bounds="r > 0 and centre: 4 free reals; no size bound")),
        ("C10/ellipse", lambda: run_e2("C10/ellipse", ["a", "b"] + cen, ellipse, positive=["a", "b"], functions=fns, stubs=stubs,
                                       max_paths=mp, bounds="a, b > 0 in either order incl. a = b, centre free: 5 free reals")),
        ("C10/sphere", lambda: run_e2("C10/sphere", ["r"] + cen, sphere, positive=["r"], functions=fns, max_paths=mp,
                                      bounds="r > 0 and centre: 4 free reals")),
        ("C10/ellipsoid", lambda: run_e2("C10/ellipsoid", ["a", "b", "c"] + cen, ellipsoid, positive=["a", "b", "c"], functions=fns,
                                         stubs=stubs, max_paths=mp,
                                         bounds="a, b, c > 0 in all 13 weak orderings (ties incl. sphere), centre free: 6 free reals")),
    ]
