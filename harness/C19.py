"""C19 - GSD, repr and HOOMD representations round-trip the shape.

E2 part (symx): every class, base shape placed by a free translation (curved shapes: all
parameters free).  ``from_gsd_type_shapes(shape.gsd_shape_spec)`` and ``eval(repr(shape))`` run on
symbolic data (a scalar prints as a token that the eval namespace maps back to the same scalar;
justified by Python's repr(float) round-trip guarantee); class and vertices / faces / radii / axes
(+ centre and normal for repr) are compared as terms.  ``to_hoomd``: the returned vertices must
have their centroid at the origin, centroid = 0, volume/area and the inertia tensor must be those
of the centred shape (independent oracle), sweep radius = radius, and the object is unchanged.
E1 part (CrossHair): type dispatch incl. missing / unknown type, ``to_json`` key sets.
"""
from fractions import Fraction as F

from . import common, oracles as O, shapes as SH
from . import C16
from .common import run_e2, run_crosshair

LEVEL = "model_checking"
TECHNIQUE = "symbolic execution of gsd_shape_spec/from_gsd_type_shapes, repr/eval and to_hoomd on shapes with free placement (term equality decided by z3) + CrossHair on the string/dict dispatch"
ASSUMPTIONS = [
    "A1 reals not floats; repr(float) round-trips exactly (Python guarantee), so a symbolic scalar is printed as a token and mapped back by eval",
    "contract stubs for qhull / kabsch",
    "GSD specs carry no centre for Sphere/Ellipsoid types and no normal: only the attributes the spec contains are compared",
]
DIM = {"Circle": 2, "Ellipse": 2, "Polygon": 2, "ConvexPolygon": 2, "ConvexSpheropolygon": 2}


class Tokens:
    def __init__(self):
        self.by_key, self.ns = {}, {}

    def token(self, s):
        if s.is_const():
            f = s.as_fraction()
            return str(f.numerator) if f.denominator == 1 else repr(float(f)) if float(f) == f else "_Q(%d,%d)" % (f.numerator, f.denominator)
        k = s.key()
        t = self.by_key.get(k)
        if t is None:
            t = "_T%d" % len(self.by_key)
            self.by_key[k] = t
            self.ns[t] = s
        return t


def _attrs(s):
    """Comparable description of a shape: (class name, dict of scalars/arrays)."""
    d = {}
    core = getattr(s, "polygon", None) or getattr(s, "polyhedron", None) or s
    if hasattr(core, "_vertices"):
        d["vertices"] = [list(r) for r in core.vertices]
    if hasattr(core, "_faces") and type(core).__name__ == "Polyhedron":
        d["faces"] = [[int(i) for i in f] for f in core.faces]
    for nm in ("radius", "a", "b", "c"):
        if hasattr(s, "_" + nm):
            d[nm] = getattr(s, nm)
    return d


def make_body(kind0, what):
    kind = kind0.split(".")[0] if not kind0.startswith("Polygon:") else kind0  # "Polygon.cw" etc. are Polygon objects built by C16._mk

    def body(H, V):
        import coxeter
        import numpy as rnp
        from coxeter.shape_getters import from_gsd_type_shapes
        from symx import core as sc

        if kind in ("Circle", "Sphere", "Ellipse", "Ellipsoid") and H.symbolic:
            import coxeter.shapes as S

            c = [V["tx"], V["ty"], V["tz"]]
            s = {"Circle": lambda: S.Circle(V["a"], c), "Sphere": lambda: S.Sphere(V["a"], c), "Ellipse": lambda: S.Ellipse(V["a"], V["b"], c),
                 "Ellipsoid": lambda: S.Ellipsoid(V["a"], V["b"], V["c"], c)}[kind]()
        elif kind in ("Circle", "Sphere", "Ellipse", "Ellipsoid"):
            import coxeter.shapes as S

            c = [V["tx"], V["ty"], V["tz"]]
            s = {"Circle": lambda: S.Circle(V["a"], c), "Sphere": lambda: S.Sphere(V["a"], c), "Ellipse": lambda: S.Ellipse(V["a"], V["b"], c),
                 "Ellipsoid": lambda: S.Ellipsoid(V["a"], V["b"], V["c"], c)}[kind]()
        elif kind.startswith("Polygon:"):
            # xy-plane polygons whose stored normal differs from the one the constructor would derive from the first three vertices
            import coxeter.shapes as S

            var = kind.split(":")[1]
            pts = {"cw_plus_z": [(0, 0), (0, 2), (3, 2), (3, 0)], "reflex_second_plus_z": [(3, 2), (2, 0), (3, -2), (0, 0)],
                   "ccw_minus_z": [(0, 0), (3, 0), (3, 2), (0, 2)]}[var]
            nz = -1 if var.endswith("minus_z") else 1
            P = [[V["tx"] + x, V["ty"] + y, V["tz"]] for x, y in pts]
            s = S.Polygon(H.arr(P), normal=[H.num(0), H.num(0), H.num(nz)], test_simple=False)
        else:
            s = C16._mk(kind0, H, V)
        a0 = _attrs(s)
        if what == "gsd":
            spec = s.gsd_shape_spec
            r = from_gsd_type_shapes(spec, dimensions=DIM.get(kind, 3))
            H.claim("gsd.same_class", isinstance(r, type(s)) and (type(r).__name__ == kind or kind.startswith("Polygon")))
            a1 = _attrs(r)
            H.claim("gsd.same_attributes", sorted(a0) == sorted(a1))
            for k in a0:
                if k == "faces":
                    H.claim("gsd.same_faces", a0[k] == a1[k])
                else:
                    H.claim_all_eq("gsd.same_" + k, a1[k], a0[k])
        elif what == "repr":
            ctx = getattr(H, "ctx", None)
            ns = {"coxeter": coxeter, "array": rnp.array, "_Q": lambda p, q: H.num(F(p, q))}
            if ctx is not None:
                ctx.tokens = Tokens()
            try:
                text = repr(s)
                H.claim("str=repr", str(s) == text)
                if ctx is not None:
                    ns.update(ctx.tokens.ns)
            finally:
                if ctx is not None:
                    ctx.tokens = None
            r = eval(text, ns)  # noqa: S307 - the property is about eval(repr(shape))
            H.claim("repr.same_or_base_class", isinstance(s, type(r)) or type(r).__name__ == kind.split(":")[0])
            a1 = _attrs(r)
            for k in a0:
                if k not in a1:
                    H.fail("repr.same_" + k, "attribute missing after eval(repr())")
                elif k == "faces":
                    H.claim("repr.same_faces", a0[k] == a1[k])
                else:
                    H.claim_all_eq("repr.same_" + k, a1[k], a0[k])
            if hasattr(s, "_centroid") and kind in ("Circle", "Sphere", "Ellipse", "Ellipsoid"):
                H.claim_all_eq("repr.same_center", r.centroid, s.centroid)
            core0 = getattr(s, "polygon", None) or s
            core1 = getattr(r, "polygon", None) or r
            if hasattr(core0, "_normal"):
                H.claim_all_eq("repr.same_normal", core1.normal, core0.normal)
                H.claim_eq("repr.same_signed_area", core1.signed_area, core0.signed_area)
        elif what == "hoomd":
            core = getattr(s, "polygon", None) or getattr(s, "polyhedron", None) or s
            verts0 = [list(r) for r in core.vertices] if hasattr(core, "_vertices") else None
            d = s.to_hoomd()
            keys = set(d)
            H.claim("hoomd.has_centroid_key", "centroid" in keys)
            cz = d["centroid"]
            H.claim_all_eq("hoomd.centroid_is_origin", [cz[0], cz[1], cz[2]], [0, 0, 0])
            if verts0 is not None:
                H.claim("hoomd.has_vertices_key", "vertices" in keys)
                hv = d["vertices"]
                nd = len(hv[0])
                # oracle: the shape's exact centroid from the original vertices
                if kind in ("Polygon", "ConvexPolygon", "ConvexSpheropolygon"):
                    nrm = [core.normal[k] for k in range(3)]
                    m = O.polygon_measures(verts0, nrm)
                    cen = m["c"]
                else:
                    if kind == "Polyhedron":
                        faces = [[int(i) for i in f] for f in core.faces]
                    else:
                        faces = SH.convex_facets(SH.CONVEX["pyramid"] if kind == "ConvexPolyhedron" else SH.CONVEX["pyramid"])
                    tris = [(verts0[a], verts0[b], verts0[c]) for f in faces for a, b, c in SH.fan(f)]
                    Vol, m1, m2 = O.polyhedron_moments(tris)
                    cen = [m1[k] / Vol for k in range(3)]
                    if "volume" in keys and kind != "ConvexSpheropolyhedron":
                        H.claim_eq("hoomd.volume", d["volume"], Vol)
                    if "moment_inertia" in keys:
                        cm2 = [[m2[i][j] - Vol * cen[i] * cen[j] for j in range(3)] for i in range(3)]
                        H.claim_all_eq("hoomd.moment_inertia_about_centroid", d["moment_inertia"], O.inertia_from_moments(cm2))
                for i in range(len(verts0)):
                    for k in range(nd):
                        H.claim_eq("hoomd.vertices_centred[%d,%d]" % (i, k), hv[i][k], verts0[i][k] - cen[k])
                if "sweep_radius" in keys:
                    H.claim_eq("hoomd.sweep_radius", d["sweep_radius"], getattr(s, "_radius", 0))
                # the object itself is unchanged
                H.claim_all_eq("hoomd.object_unchanged", [list(r) for r in core.vertices], verts0)
            else:
                vol = 4 * H.pi * V["a"] ** 3 / 3 if kind == "Sphere" else 4 * H.pi * V["a"] * V["b"] * V["c"] / 3
                H.claim_eq("hoomd.volume", d["volume"], vol)
                ax = [V["a"]] * 3 if kind == "Sphere" else [V["a"], V["b"], V["c"]]
                I = d["moment_inertia"]
                for i in range(3):
                    for j in range(3):
                        e = vol / 5 * (sum(x * x for x in ax) - ax[i] * ax[i]) if i == j else 0
                        H.claim_eq("hoomd.moment_inertia[%d,%d]" % (i, j), I[i][j], e)
                H.claim_all_eq("hoomd.object_unchanged", s.centroid, [V["tx"], V["ty"], V["tz"]])

    return body


def _ob(kind, what, tier):
    name = "C19/%s.%s" % (kind, what)
    curved = kind in ("Circle", "Sphere", "Ellipse", "Ellipsoid")
    names = (["a", "b", "c"] if curved else []) + ["tx", "ty", "tz"]
    from coxeter import shape_getters
    import coxeter.shapes as S
    from symx.loader import functions_encoded

    cls = getattr(S, kind.split(":")[0].split(".")[0])
    fl = [shape_getters.from_gsd_type_shapes, cls.gsd_shape_spec.fget] if what == "gsd" else [cls.__repr__] if what == "repr" else [cls.to_hoomd]
    first = dict(a=F(3, 2), b=F(2), c=F(5, 4), tx=F(7, 3), ty=F(-5, 2), tz=F(11, 4))
    first = {k: v for k, v in first.items() if k in names}
    return (name, lambda: run_e2(name, names, make_body(kind, what), positive=(["a", "b", "c"] if curved else []), functions=functions_encoded(fl),
                                 first_sample=first, max_paths=(3 if tier == "quick" else 10), budget_s=(120 if tier == "quick" else 600),
                                 stubs=["qhull / kabsch contract stubs"],
                                 bounds="%s %s; %s" % (kind, "all parameters and centre free" if curved else "base shape with a free translation (3 reals)", what)))


def obligations(tier, seed):
    import coxeter.shapes as S

    obs = []
    for kind in C16.KINDS:
        obs.append(_ob(kind, "gsd", tier))
        obs.append(_ob(kind, "repr", tier))
        if hasattr(getattr(S, kind.split(".")[0]), "to_hoomd"):
            obs.append(_ob(kind, "hoomd", tier))
    for var in ("cw_plus_z", "reflex_second_plus_z", "ccw_minus_z"):
        obs.append(_ob("Polygon:" + var, "repr", tier))
    for fn in ("gsd_missing_type_raises", "gsd_unknown_type_raises", "gsd_dispatch_classes", "to_json_exact_keys", "to_json_unknown_attribute"):
        obs.append(("C19/E1." + fn, (lambda fn=fn: run_crosshair("C19/E1." + fn, "C19_dispatch.py", fn, timeout_s=(40 if tier == "quick" else 120),
                                                                   bounds="CrossHair: symbolic str / dict keys / attribute lists, per-condition timeout"))))
    return obs
