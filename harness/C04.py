"""C04 - Polygon area, centroid, moments and inertia tensor are exact.

The real ``Polygon`` (and ``ConvexPolygon``) constructor and getters run with all 2n in-plane
coordinates free (n = 3, 4; 5, 6 in the thorough tier), in the xy-plane and in tilted planes
(rational rotation + free offset), with default / explicit normals of either sign, and for two
values of the in-plane freedom of the kabsch stub.  The oracle is a fan decomposition with exact
triangle moment formulas (independent of the edge-sum formulas of the code).
"""
from fractions import Fraction as F

from . import common, oracles as O
from .common import run_e2

LEVEL = "model_checking"
TECHNIQUE = "symbolic execution of the real Polygon code with free vertex coordinates (symx normal forms + z3 QF_NRA), fan-decomposition oracle"
ASSUMPTIONS = [
    "A1 reals not floats",
    "rowan.mapping.kabsch replaced by its contract: some proper rotation taking the normal to +z (Rodrigues rotation composed with an in-plane rotation chosen per obligation)",
    "scipy ConvexHull (2-D) replaced by an exact gift-wrapping hull",
    "planar_moments_inertia is claimed only with the kabsch stub's in-plane rotation = identity (the real kabsch returns the identity for a +z normal; another in-plane rotation would rotate the x/y axes the moments refer to)",
    "Polygon built with test_simple=False: the simplicity test is C15's subject; the precondition here states simplicity by orientation predicates",
]

QUATS = {"xy": None, "tilt1": (1, 2, 2, 0), "tilt2": (2, 1, -1, 3)}
KAB = {"k0": None, "k1": (F(3, 5), F(4, 5))}


def _verts(V, n, quat, placed):
    pts = []
    R = O.rot_from_quat(*quat) if quat else None
    for i in range(n):
        p = [V["x%d" % i], V["y%d" % i], 0 * V["x0"]]
        if R is not None:
            p = O.matvec(R, p)
        if placed:
            p = O.add(p, [V["tx"], V["ty"], V["tz"]])
        pts.append(p)
    nz = O.matvec(R, [0, 0, 1]) if R is not None else [0, 0, 1]
    return pts, nz


def _orient(V, i, j, k):
    return (V["x%d" % j] - V["x%d" % i]) * (V["y%d" % k] - V["y%d" % i]) - (V["y%d" % j] - V["y%d" % i]) * (V["x%d" % k] - V["x%d" % i])


def _pre_simple(V, n):
    """Simple polygon, no three consecutive collinear vertices (orientation predicates)."""
    from symx.core import sym_or, sym_and

    cs = []
    for i in range(n):
        cs.append(_orient(V, i, (i + 1) % n, (i + 2) % n) != 0)
    for i in range(n):
        for j in range(i + 2, n):
            if (j + 1) % n == i:
                continue
            a, b, c, d = i, (i + 1) % n, j, (j + 1) % n
            # segments ab and cd do not meet
            cs.append(sym_or(_orient(V, a, b, c) * _orient(V, a, b, d) > 0, _orient(V, c, d, a) * _orient(V, c, d, b) > 0))
    return cs


def make_body(n, quat, normal_mode, cls_name, placed, planar=True):
    def body(H, V):
        import coxeter.shapes as S

        pts, nz = _verts(V, n, quat, placed)
        cls = getattr(S, cls_name)
        kw = {}
        if normal_mode == "plus":
            kw["normal"] = [H.num(c) for c in nz]
        elif normal_mode == "minus":
            kw["normal"] = [-H.num(c) for c in nz]
        if cls_name == "Polygon":
            kw["test_simple"] = False
        poly = cls(H.arr(pts), **kw)
        nrm = [poly.normal[k] for k in range(3)]
        verts = [[poly.vertices[i][k] for k in range(3)] for i in range(n)]
        # "about its normal": an explicit normal is the normal of the polygon (nz is a unit vector)
        if normal_mode in ("plus", "minus"):
            H.claim_all_eq("normal=requested", nrm, kw["normal"])
        else:
            H.claim_eq("normal_is_unit", O.dot(nrm, nrm), 1)
        if cls_name == "Polygon":
            H.claim_all_eq("vertices_stored_as_given", verts, pts)
        m = O.polygon_measures(verts, nrm)
        A = m["A"]
        H.claim_eq("signed_area", poly.signed_area, A)
        absA = A if A >= 0 else -A
        H.claim_eq("area", poly.area, absA)
        per = 0
        for i in range(n):
            d = O.sub(verts[(i + 1) % n], verts[i])
            per = per + H.sqrt(O.dot(d, d))
        H.claim_eq("perimeter", poly.perimeter, per)
        H.claim_all_eq("centroid", poly.centroid, m["c"])
        I, J_c, J_o = O.polygon_inertia_tensor(verts, nrm, absA)
        H.claim_eq("polar_moment_inertia", poly.polar_moment_inertia, J_o)
        H.claim_all_eq("inertia_tensor", poly.inertia_tensor, I)
        if quat is None and not placed and planar:
            # needs kabsch to return the identity for a +z normal (in-plane freedom fixed to 0)
            pm = poly.planar_moments_inertia
            M = m["M"]
            sg = 1 if A >= 0 else -1
            if bool(nrm[2] > 0) if not isinstance(nrm[2], float) else nrm[2] > 0:
                H.claim_eq("planar.Ix=int y^2", pm[0], sg * M[1][1])
                H.claim_eq("planar.Iy=int x^2", pm[1], sg * M[0][0])
                H.claim_eq("planar.Ixy=int xy", pm[2], sg * M[0][1])
        if cls_name == "ConvexPolygon":
            H.claim("convex.ccw_about_normal", poly.signed_area > 0)
        # the polygon is unchanged by the queries
        H.claim_all_eq("vertices_unchanged", poly.vertices, verts)

    return body


def _ob(name, n, quat_key, normal_mode, cls_name, kab, placed, tier, convex_pre=False):
    quat = QUATS[quat_key]
    names = ["x%d" % i for i in range(n)] + ["y%d" % i for i in range(n)] + (["tx", "ty", "tz"] if placed else [])

    def pre(V):
        cs = _pre_simple(V, n)
        if cls_name == "ConvexPolygon":
            # strictly convex position: all consecutive triples turn the same way
            from symx.core import sym_or, sym_and

            pos = sym_and(*[_orient(V, i, (i + 1) % n, (i + 2) % n) > 0 for i in range(n)])
            neg = sym_and(*[_orient(V, i, (i + 1) % n, (i + 2) % n) < 0 for i in range(n)])
            cs.append(sym_or(pos, neg))
        return cs

    def setup(ctx):
        ctx.kabsch_t = KAB[kab]

    from symx.loader import functions_encoded
    import coxeter.shapes as S
    from coxeter.shapes import polygon, convex_polygon, utils

    fns = functions_encoded([S.Polygon, polygon._align_points_by_normal, utils.translate_inertia_tensor, utils.rotate_order2_tensor]
                            + ([S.ConvexPolygon, convex_polygon._is_convex] if cls_name == "ConvexPolygon" else []))
    first = {}
    import math
    for i in range(n):
        # a convex regular-ish start point (counter-clockwise), rational
        ang = 2 * math.pi * i / n + 0.3
        first["x%d" % i] = F(round(7 * math.cos(ang)), 3)
        first["y%d" % i] = F(round(7 * math.sin(ang)), 3)
    if placed:
        first.update(tx=F(3), ty=F(-2), tz=F(5))
    return (name, lambda: run_e2(name, names, make_body(n, quat, normal_mode, cls_name, placed, planar=(kab == 'k0')), pre=pre, setup=setup, functions=fns,
                                 first_sample=first, max_paths=(24 if tier == "quick" else 96), budget_s=(150 if tier == "quick" else 900),
                                 stubs=["rowan.mapping.kabsch -> Rodrigues rotation x in-plane rotation %s" % (kab,), "ConvexHull(2-D) -> exact gift wrapping"],
                                 bounds="n=%d, all %d in-plane coordinates free%s, plane=%s, normal=%s, class=%s, simple polygon (orientation-predicate precondition), "
                                        "path budget %d" % (n, 2 * n, " + free offset" if placed else "", quat_key, normal_mode, cls_name, 24 if tier == "quick" else 96)))


def obligations(tier, seed):
    obs = [
        _ob("C04/tri.xy.default", 3, "xy", "default", "Polygon", "k0", False, tier),
        _ob("C04/tri.xy.plus", 3, "xy", "plus", "Polygon", "k1", False, tier),
        _ob("C04/tri.xy.minus", 3, "xy", "minus", "Polygon", "k0", False, tier),
        _ob("C04/quad.xy.default", 4, "xy", "default", "Polygon", "k0", False, tier),
        _ob("C04/quad.xy.plus", 4, "xy", "plus", "Polygon", "k0", False, tier),
        _ob("C04/tri.tilt1.default.placed", 3, "tilt1", "default", "Polygon", "k0", True, tier),
        _ob("C04/tri.tilt2.minus.placed", 3, "tilt2", "minus", "Polygon", "k1", True, tier),
        _ob("C04/convex.tri.xy", 3, "xy", "default", "ConvexPolygon", "k0", False, tier),
        _ob("C04/convex.quad.xy", 4, "xy", "default", "ConvexPolygon", "k0", False, tier),
    ]
    if tier == "thorough":
        obs += [
            _ob("C04/quad.tilt1.default.placed", 4, "tilt1", "default", "Polygon", "k1", True, tier),
            _ob("C04/pent.xy.plus", 5, "xy", "plus", "Polygon", "k0", False, tier),
            _ob("C04/hex.xy.default", 6, "xy", "default", "Polygon", "k0", False, tier),
            _ob("C04/convex.pent.xy", 5, "xy", "default", "ConvexPolygon", "k0", False, tier),
            _ob("C04/convex.quad.tilt2.placed", 4, "tilt2", "default", "ConvexPolygon", "k1", True, tier),
        ]
    return obs
