"""Independent exact oracles (pure arithmetic: work on Sym, Fraction and float alike)."""


def cross(u, v):
    return [u[1] * v[2] - u[2] * v[1], u[2] * v[0] - u[0] * v[2], u[0] * v[1] - u[1] * v[0]]


def dot(u, v):
    return u[0] * v[0] + u[1] * v[1] + u[2] * v[2]


def sub(u, v):
    return [u[0] - v[0], u[1] - v[1], u[2] - v[2]]


def add(u, v):
    return [u[0] + v[0], u[1] + v[1], u[2] + v[2]]


def scale(k, u):
    return [k * u[0], k * u[1], k * u[2]]


def det3(a, b, c):
    return dot(a, cross(b, c))


def tri_bilinear(T, f, g):
    """int_T f*g dA for linear f, g given by their vertex values, T = (signed) triangle area."""
    return T * (f[0] * g[0] + f[1] * g[1] + f[2] * g[2] + (f[0] + f[1] + f[2]) * (g[0] + g[1] + g[2])) / 12


def polygon_measures(verts, n):
    """Fan decomposition of a planar polygon (3-D vertices, unit normal n).

    Returns dict: A (area signed about n), c (centroid), M[i][j] = int x_i x_j dA (about the origin,
    signed like A), all exact.
    """
    v0 = verts[0]
    A = 0
    first = [0, 0, 0]
    M = [[0, 0, 0] for _ in range(3)]
    for i in range(1, len(verts) - 1):
        p, q, r = v0, verts[i], verts[i + 1]
        T = dot(n, cross(sub(q, p), sub(r, p))) / 2
        A = A + T
        for k in range(3):
            first[k] = first[k] + T * (p[k] + q[k] + r[k]) / 3
            for l in range(3):
                M[k][l] = M[k][l] + tri_bilinear(T, [p[k], q[k], r[k]], [p[l], q[l], r[l]])
    c = [first[k] / A for k in range(3)]
    return dict(A=A, c=c, M=M)


def polygon_inertia_tensor(verts, n, absA):
    """J_c n n^T + |A| (|c|^2 I - c c^T): polar moment about the centroidal normal axis, parallel-axis to the origin."""
    m = polygon_measures(verts, n)
    A, c, M = m["A"], m["c"], m["M"]
    sgn_scaled = M  # signed like A; divide by A and multiply |A| to make positive
    tr = M[0][0] + M[1][1] + M[2][2]
    nn = 0
    for k in range(3):
        for l in range(3):
            nn = nn + n[k] * n[l] * M[k][l]
    J_origin = (tr - nn) * absA / A  # int |r|^2 - (r.n)^2 dA, positive
    cn = dot(c, n)
    J_c = J_origin - absA * (dot(c, c) - cn * cn)
    I = [[0, 0, 0] for _ in range(3)]
    for k in range(3):
        for l in range(3):
            I[k][l] = J_c * n[k] * n[l] + absA * ((dot(c, c) if k == l else 0) - c[k] * c[l])
    return I, J_c, J_origin


def polyhedron_moments(tris):
    """Signed-tetrahedron sums over an outward oriented triangulated closed surface.

    tris: list of (a, b, c) vertex triples (counter-clockwise seen from outside).
    Returns V, first moments m1[i] = int x_i, second moments m2[i][j] = int x_i x_j.
    """
    V = 0
    m1 = [0, 0, 0]
    m2 = [[0, 0, 0] for _ in range(3)]
    for a, b, c in tris:
        d = det3(a, b, c)  # 6 * signed volume of (0, a, b, c)
        V = V + d / 6
        for i in range(3):
            m1[i] = m1[i] + d * (a[i] + b[i] + c[i]) / 24
            for j in range(3):
                s = a[i] * a[j] + b[i] * b[j] + c[i] * c[j] + (a[i] + b[i] + c[i]) * (a[j] + b[j] + c[j])
                m2[i][j] = m2[i][j] + d * s / 120
    return V, m1, m2


def inertia_from_moments(m2):
    tr = m2[0][0] + m2[1][1] + m2[2][2]
    return [[(tr if i == j else 0) - m2[i][j] for j in range(3)] for i in range(3)]


def rot_from_quat(w, x, y, z):
    """Rational rotation matrix from an integer quaternion."""
    from fractions import Fraction as F

    n = w * w + x * x + y * y + z * z
    return [[F(w * w + x * x - y * y - z * z, n), F(2 * (x * y - w * z), n), F(2 * (x * z + w * y), n)],
            [F(2 * (x * y + w * z), n), F(w * w - x * x + y * y - z * z, n), F(2 * (y * z - w * x), n)],
            [F(2 * (x * z - w * y), n), F(2 * (y * z + w * x), n), F(w * w - x * x - y * y + z * z, n)]]


def matvec(R, v):
    return [R[i][0] * v[0] + R[i][1] * v[1] + R[i][2] * v[2] for i in range(3)]


def min_enclosing_ball(P):
    """Smallest ball containing the points P (lists of Fractions): (centre, r^2), by brute force over support sets of
    2 .. d+1 points (exact).  Independent of miniball and of coxeter's wrapper."""
    import itertools

    d = len(P[0])

    def circum(S):
        base = S[0]
        E = [sub(p, base) for p in S[1:]]
        m = len(E)
        A = [[dot(E[i], E[j]) for j in range(m)] + [dot(E[i], E[i]) / 2] for i in range(m)]
        for c in range(m):
            piv = next((r for r in range(c, m) if A[r][c] != 0), None)
            if piv is None:
                return None
            A[c], A[piv] = A[piv], A[c]
            for r in range(m):
                if r != c and A[r][c] != 0:
                    f = A[r][c] / A[c][c]
                    A[r] = [x - f * y for x, y in zip(A[r], A[c])]
        cen = list(base)
        for i, e in enumerate(E):
            lam = A[i][m] / A[i][i]
            cen = [x + lam * y for x, y in zip(cen, e)]
        return cen

    best = None
    for k in range(2, min(len(P), d + 1) + 1):
        for idx in itertools.combinations(range(len(P)), k):
            cen = circum([P[i] for i in idx])
            if cen is None:
                continue
            r2 = dot(sub(P[idx[0]], cen), sub(P[idx[0]], cen))
            if best is not None and r2 >= best[1]:
                continue
            if all(dot(sub(p, cen), sub(p, cen)) <= r2 for p in P):
                best = (cen, r2)
    return best
