"""Entry point: python -m harness.run <ID> [--tier quick|thorough] [--only REGEX] [--replay FILE]"""
import argparse
import importlib
import json
import os
import sys

from . import common


def main():
    ap = argparse.ArgumentParser()
    ap.add_argument("pid")
    ap.add_argument("--tier", default=os.environ.get("VERIF_TIER", "quick"))
    ap.add_argument("--only", default=None)
    ap.add_argument("--replay", default=None)
    ap.add_argument("--procs", type=int, default=None)
    a = ap.parse_args()
    seed = int(os.environ.get("VERIF_SEED", "0") or 0)
    modname = "harness.%s" % a.pid
    mod = importlib.import_module(modname)
    if a.replay:
        rp = json.load(open(a.replay))
        print(json.dumps(rp, indent=1))
        sys.exit(mod.replay(rp) if hasattr(mod, "replay") else 0)
    rc = common.run_property(a.pid, modname, tier=a.tier, seed=seed, only=a.only, procs=a.procs,
                             level=getattr(mod, "LEVEL", "model_checking"), technique=getattr(mod, "TECHNIQUE", ""),
                             assumptions=getattr(mod, "ASSUMPTIONS", ()))
    sys.exit(rc)


if __name__ == "__main__":
    main()
