"""Entry point: python -m harness.run <ID> [--tier quick|thorough] [--only REGEX] [--replay FILE]"""
import argparse
import importlib
import json
import os
import sys

from . import common


def main():
    ap = argparse.ArgumentParser()
    ap.add_argument("pid")
    ap.add_argument("--tier", default=os.environ.get("VERIF_TIER", "quick"))
    ap.add_argument("--only", default=None)
    ap.add_argument("--replay", default=None)
    ap.add_argument("--procs", type=int, default=None)
    a = ap.parse_args()
    seed = int(os.environ.get("VERIF_SEED", "0") or 0)
    modname = "harness.%s" % a.pid
    mod = importlib.import_module(modname)
    if a.replay:
        rp = json.load(open(a.replay))
        print("replaying %s claim %s at witness %s on the real float64 code" % (rp.get("obligation"), rp.get("claim"), rp.get("witness")))
        if not isinstance(rp.get("witness"), dict) or "i" in rp.get("witness", {}) or not all(isinstance(v, str) for v in rp["witness"].values()):
            print("this replay file is not a symx witness (CrossHair / enumeration): see its 'how' / 'detail' fields")
            print(json.dumps(rp, indent=1)[:1500])
            sys.exit(0)
        common.REPLAY_REQUEST = rp
        for name, fn in mod.obligations(a.tier, seed):
            if name == rp["obligation"]:
                r = fn()
                print(json.dumps(r.get("replay"), indent=1, default=str)[:3000])
                cr = (r.get("replay") or {}).get("claim_result")
                sys.exit(1 if (cr is not None and not cr["holds"]) else 0)
        print("obligation not found in tier %s" % a.tier)
        sys.exit(2)
    rc = common.run_property(a.pid, modname, tier=a.tier, seed=seed, only=a.only, procs=a.procs,
                             level=getattr(mod, "LEVEL", "model_checking"), technique=getattr(mod, "TECHNIQUE", ""),
                             assumptions=getattr(mod, "ASSUMPTIONS", ()))
    sys.exit(rc)


if __name__ == "__main__":
    main()
