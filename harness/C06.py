"""C06 - 2-D point containment equals exact membership.

Polygons are concrete (rational lattice coordinates, convex and non-convex, both orientations,
reflex first corner, in the xy-plane with normals +-z and in tilted rational planes); the query
point is free *in the polygon's plane* (2 reals), so the solver covers every point of the plane
including the measure-zero alignments the winding-number code special-cases.  The real
``Polygon.is_inside`` runs once in piecewise mode (no forking: np.sign / mask assignment become
piecewise-constant terms); the claim "impl <=> crossing-parity oracle, off the boundary" is a
single QF_LRA/NRA query.  Circle and Ellipse: radius / semi-axes, centre and point all free.
"""
from fractions import Fraction as F

from . import common, oracles as O
from .common import run_e2

LEVEL = "model_checking"
TECHNIQUE = "symbolic execution of the real is_inside with a free query point (piecewise-constant terms) + z3 decides impl <=> exact membership for all points"
ASSUMPTIONS = [
    "A1 reals not floats; 'not within a tiny margin of the boundary' = outside a band of width 1e-3 (polygon sizes 3..7) around every edge for polygons, 'not on the boundary' for circle/ellipse",
    "rowan.mapping.kabsch replaced by its contract (Rodrigues rotation taking the normal to +z composed with a chosen in-plane rotation)",
    "polygons are concrete rational shapes from the base list; sizes n <= 12",
]

# name -> vertex list (counter-clockwise unless stated)
POLYS = {
    "tri": [(0, 0), (4, 0), (1, 3)],
    "square": [(-1, -1), (2, -1), (2, 2), (-1, 2)],
    "diamond": [(2, 0), (0, 2), (-2, 0), (0, -2)],
    "L": [(0, 0), (4, 0), (4, 1), (1, 1), (1, 3), (0, 3)],
    "reflex_first_cw": [(2, 2), (0, 4), (0, 0), (5, 0), (5, 4), (3, 4), (3, 1)][::-1],
    "comb": [(0, 0), (7, 0), (7, 4), (6, 4), (6, 1), (5, 1), (5, 4), (4, 4), (4, 1), (3, 1), (3, 4), (0, 4)],
    "arrow": [(0, 0), (3, -2), (2, 0), (3, 2)],
    "hexagon_cw": [(2, 0), (1, -2), (-1, -2), (-2, 0), (-1, 2), (1, 2)],
}
CONVEX = {"tri", "square", "diamond", "hexagon_cw"}
QUATS = {"xy": None, "tilt1": (1, 2, 2, 0), "tilt2": (2, 1, -1, 3)}
KAB = {"k0": None, "k1": (F(3, 5), F(4, 5)), "k2": (F(-5, 13), F(12, 13))}


MARGIN = F(1, 1000)


def _inplane_oracle(H, poly2, px, py):
    """(inside, on_boundary) by crossing parity with the half-open rule; exact for rational vertices."""
    inside = False
    onb = []
    n = len(poly2)
    for i in range(n):
        (x1, y1), (x2, y2) = poly2[i], poly2[(i + 1) % n]
        cr = (x2 - x1) * (py - y1) - (y2 - y1) * (px - x1)
        # boundary band: within MARGIN (in the max-norm sense) of the edge segment is excluded from the claim
        band = MARGIN * (abs(x2 - x1) + abs(y2 - y1))
        onb.append(H.and_(cr <= band, cr >= -band, px >= min(x1, x2) - MARGIN, px <= max(x1, x2) + MARGIN,
                          py >= min(y1, y2) - MARGIN, py <= max(y1, y2) + MARGIN))
        if y1 == y2:
            continue
        straddle = H.xor(y1 > py, y2 > py)
        # px < x1 + (py - y1) * (x2 - x1) / (y2 - y1)
        dy = y2 - y1
        lhs = (px - x1) * dy
        rhs = (py - y1) * (x2 - x1)
        left = (lhs < rhs) if dy > 0 else (lhs > rhs)
        inside = H.xor(inside, H.and_(straddle, left))
    return inside, H.or_(*onb)


def make_poly_body(pname, quat_key, normal_mode, kab, cls_name, mode):
    base = [(F(x), F(y)) for x, y in POLYS[pname]]
    quat = QUATS[quat_key]
    R = O.rot_from_quat(*quat) if quat else [[F(1), F(0), F(0)], [F(0), F(1), F(0)], [F(0), F(0), F(1)]]
    off = [F(0), F(0), F(0)] if quat is None else [F(3), F(-2), F(5)]
    e1, e2, nz = O.matvec(R, [1, 0, 0]), O.matvec(R, [0, 1, 0]), O.matvec(R, [0, 0, 1])

    def lift(x, y):
        return [off[k] + x * e1[k] + y * e2[k] for k in range(3)]

    def body(H, V):
        import coxeter.shapes as S

        ctx = getattr(H, "ctx", None)
        verts = [[H.num(c) for c in lift(x, y)] for x, y in base]
        kw = {}
        if normal_mode == "plus":
            kw["normal"] = [H.num(c) for c in nz]
        elif normal_mode == "minus":
            kw["normal"] = [-H.num(c) for c in nz]
        if cls_name == "Polygon":
            kw["test_simple"] = False
        poly = getattr(S, cls_name)(H.arr(verts), **kw)
        npts = 3 if mode == "batch3" else 1
        P2 = [(V["u%d" % i], V["w%d" % i]) for i in range(npts)]
        if mode == "xy2":
            pts = [[u, w] for u, w in P2]
        else:
            pts = [[off[k] + u * e1[k] + w * e2[k] for k in range(3)] for u, w in P2]
        if ctx is not None:
            ctx.pw_mode = True
        arg = H.arr(pts[0]) if mode == "single3" else H.arr(pts)
        try:
            res = poly.is_inside(arg)
        finally:
            if ctx is not None:
                ctx.pw_mode = False
        H.claim_all_eq("points_unchanged", list(arg) if mode == "single3" else [list(row) for row in arg], pts[0] if mode == "single3" else pts)
        H.claim("result_shape", len(res) == npts)
        for i, (u, w) in enumerate(P2):
            ins, onb = _inplane_oracle(H, base, u, w)
            H.claim("inside[%d]<=>oracle" % i, H.or_(onb, H.iff(res[i], ins)))

    return body


def _poly_ob(pname, quat_key, normal_mode, kab, cls_name, mode, tier):
    name = "C06/%s.%s.%s.%s.%s.%s" % (cls_name, pname, quat_key, normal_mode, kab, mode)
    npts = 3 if mode == "batch3" else 1
    names = [v for i in range(npts) for v in ("u%d" % i, "w%d" % i)]

    def setup(ctx):
        ctx.kabsch_t = KAB[kab]

    import coxeter.shapes as S
    from coxeter.shapes import polygon
    from symx.loader import functions_encoded

    fns = functions_encoded([S.Polygon.is_inside, S.Polygon.__init__, polygon._align_points_by_normal])
    first = {}
    for i in range(npts):
        first["u%d" % i] = F(3 + i, 7)
        first["w%d" % i] = F(5 - i, 11)
    return (name, lambda: run_e2(name, names, make_poly_body(pname, quat_key, normal_mode, kab, cls_name, mode), setup=setup, functions=fns,
                                 first_sample=first, max_paths=4, budget_s=200,
                                 stubs=["rowan.mapping.kabsch -> Rodrigues x in-plane rotation %s" % (kab,), "ConvexHull(2-D) -> exact gift wrapping"],
                                 bounds="polygon %s (%d vertices, concrete rational), plane %s, normal %s, query point(s): %d x 2 free reals in the polygon's plane, input form %s"
                                        % (pname, len(POLYS[pname]), quat_key, normal_mode, npts, mode)))


def circle_body(H, V):
    from coxeter.shapes import Circle

    r, cx, cy, cz, px, py = V["r"], V["cx"], V["cy"], V["cz"], V["px"], V["py"]
    s = Circle(r, [cx, cy, cz])
    pts = H.arr([[px, py, cz]])
    res = s.is_inside(pts)
    d2 = (px - cx) * (px - cx) + (py - cy) * (py - cy)
    H.claim("circle.inside<=>oracle", H.or_(d2 == r * r, H.iff(res[0], d2 < r * r)))
    # the caller's array is an input, not scratch space: unchanged, and asking again with the same array (or a row of it) agrees
    H.claim_all_eq("circle.points_unchanged", [list(row) for row in pts], [[px, py, cz]])
    res2 = s.is_inside(pts)
    H.claim("circle.same_array_again", H.or_(d2 == r * r, H.iff(res2[0], d2 < r * r)))
    row = pts[0]
    res1 = s.is_inside(row)
    H.claim("circle.single_form", H.or_(d2 == r * r, H.iff(res1[0], d2 < r * r)))
    H.claim_all_eq("circle.row_unchanged", list(row), [px, py, cz])


def ellipse_body(H, V):
    from coxeter.shapes import Ellipse

    a, b, cx, cy, cz, px, py = V["a"], V["b"], V["cx"], V["cy"], V["cz"], V["px"], V["py"]
    s = Ellipse(a, b, [cx, cy, cz])
    pts = H.arr([[px, py, cz]])
    res = s.is_inside(pts)
    dx, dy = px - cx, py - cy
    q = dx * dx * b * b + dy * dy * a * a
    rhs = a * a * b * b
    H.claim("ellipse.inside<=>oracle", H.or_(q == rhs, H.iff(res[0], q < rhs)))
    H.claim_all_eq("ellipse.points_unchanged", [list(row) for row in pts], [[px, py, cz]])


def obligations(tier, seed):
    obs = []
    quick = [
        ("tri", "xy", "default", "k0", "Polygon", "batch1"),
        ("square", "xy", "plus", "k1", "Polygon", "xy2"),
        ("diamond", "xy", "default", "k0", "Polygon", "batch1"),
        ("diamond", "xy", "minus", "k0", "Polygon", "batch3"),
        ("L", "xy", "default", "k0", "Polygon", "single3"),
        ("reflex_first_cw", "xy", "default", "k0", "Polygon", "batch1"),
        ("reflex_first_cw", "xy", "plus", "k2", "Polygon", "xy2"),
        ("comb", "xy", "default", "k0", "Polygon", "batch1"),
        ("arrow", "xy", "minus", "k1", "Polygon", "batch1"),
        ("arrow", "tilt1", "default", "k0", "Polygon", "batch1"),
        ("L", "tilt2", "minus", "k1", "Polygon", "batch1"),
        ("hexagon_cw", "xy", "default", "k0", "ConvexPolygon", "batch1"),
        ("diamond", "tilt1", "default", "k1", "ConvexPolygon", "batch3"),
        ("tri", "xy", "minus", "k0", "ConvexPolygon", "xy2"),
    ]
    thorough = [(p, q, nm, k, c, m) for p in POLYS for q in QUATS for nm in ("default", "plus", "minus") for k in ("k0", "k2")
                for c in (("Polygon", "ConvexPolygon") if p in CONVEX else ("Polygon",)) for m in ("batch1",)]
    thorough += [(p, "xy", "default", "k0", "Polygon", m) for p in POLYS for m in ("xy2", "single3", "batch3")]
    # each obligation costs about a second, so the quick tier runs the full configuration matrix as well;
    # the thorough tier adds batches of three points for every polygon / plane
    if tier == "thorough":
        thorough += [(p, q, "default", "k1", "Polygon", "batch3") for p in POLYS for q in QUATS]
    cfgs = sorted(set(quick + thorough))
    for cfg in cfgs:
        obs.append(_poly_ob(*cfg, tier))
    from coxeter.shapes import Circle, Ellipse
    from symx.loader import functions_encoded

    obs.append(("C06/circle", lambda: run_e2("C06/circle", ["r", "cx", "cy", "cz", "px", "py"], circle_body, positive=["r"], pi=False,
                                             functions=functions_encoded([Circle.is_inside]),
                                             bounds="radius > 0, centre (3) and in-plane point (2) all free reals")))
    obs.append(("C06/ellipse", lambda: run_e2("C06/ellipse", ["a", "b", "cx", "cy", "cz", "px", "py"], ellipse_body, positive=["a", "b"], pi=False,
                                              functions=functions_encoded([Ellipse.is_inside]),
                                              bounds="a, b > 0 in any order, centre (3) and in-plane point (2) all free reals")))
    return obs
