"""C07 - face, normal, neighbour and edge structure of polyhedra is consistent.

The real ``ConvexPolyhedron`` constructor runs in full (exact hull stub in several output orders,
``_combine_simplices``, ``_sort_simplices`` incl. its arctan2/lexsort pre-sort and breadth-first
orientation, ``sort_faces`` with kabsch and the angular sort, ``_find_neighbors``) on base solids
placed by free scale / translation and rational rotations, in several vertex orders, and on a
tetrahedron with all 12 coordinates free.  ``Polyhedron.sort_faces`` gets the facets with the
vertex order inside each face permuted / reversed and the face list shuffled; ``merge_faces`` gets
triangulated convex surfaces.  Claims are per path: combinatorial outputs are concrete on a path,
geometric ones symbolic.
"""
import itertools
import random
from fractions import Fraction as F

from . import common, oracles as O, shapes as SH
from .common import run_e2

LEVEL = "model_checking"
TECHNIQUE = "symbolic execution of the real constructors / sort_faces / merge_faces with free placement or free coordinates; per-path structural claims, geometric ones decided by z3"
ASSUMPTIONS = [
    "A1 reals not floats (coplanarity tolerance acts as exact equality)",
    "qhull replaced by an exact hull with several simplex / in-simplex orders; kabsch by its contract",
    "face permutations: a seeded sample of reversals / rotations / shuffles per shape (listed in the evidence bounds)",
]


def _structure_claims(H, poly, P, facets, convex_cls=True):
    """Claims about faces/normals/neighbours/edges of ``poly`` against the oracle facets (index cycles)."""
    got = [[int(i) for i in f] for f in poly.faces]
    want = {frozenset(f): f for f in facets}
    if sorted(map(sorted, got)) != sorted(map(sorted, facets)):
        H.fail("faces=hull_facets", "got %r want %r" % (sorted(map(sorted, got))[:8], sorted(map(sorted, facets))[:8]))
        return
    H.ok("faces=hull_facets")
    cen = [sum(p[k] for p in P) / len(P) for k in range(3)]
    eq = poly._equations
    for fi, f in enumerate(got):
        ref = want[frozenset(f)]
        # counter-clockwise seen from outside: same cyclic order as the oracle cycle
        m = ref.index(f[0])
        H.claim("face_ccw_outside[%s]" % sorted(f), [ref[(m + j) % len(ref)] for j in range(len(ref))] == f)
        n = [eq[fi][k] for k in range(3)]
        d = eq[fi][3]
        H.claim_eq("unit_normal[%s]" % sorted(f), n[0] * n[0] + n[1] * n[1] + n[2] * n[2], 1)
        for i in f:
            H.claim_eq("plane_contains_face_vertex[%s,%d]" % (sorted(f), i), O.dot(n, P[i]) + d, 0)
        H.claim("normal_outward[%s]" % sorted(f), O.dot(n, cen) + d < 0)
        others = [i for i in range(len(P)) if i not in f]
        if others:
            H.claim("other_vertices_inside[%s]" % sorted(f), H.and_(*[O.dot(n, P[i]) + d < 0 for i in others]))
    # neighbours: symmetric and = shared-edge relation
    def edges_of(f):
        return {frozenset((f[i], f[(i + 1) % len(f)])) for i in range(len(f))}

    nb = [set(int(j) for j in ns) for ns in poly.neighbors]
    ok = True
    for i in range(len(got)):
        for j in range(len(got)):
            if i == j:
                continue
            share = bool(edges_of(got[i]) & edges_of(got[j]))
            if share != (j in nb[i]) or ((j in nb[i]) != (i in nb[j])):
                ok = False
    H.claim("neighbors=shared_edges_symmetric", ok)
    # edges: each once as (i<j), Euler, num_edges
    E = [tuple(int(x) for x in e) for e in poly.edges]
    allE = set()
    for f in got:
        for e in edges_of(f):
            allE.add(tuple(sorted(e)))
    H.claim("edges_unique_sorted", len(set(E)) == len(E) and all(a < b for a, b in E) and E == sorted(E))
    H.claim("edges=face_edges", set(E) == allE)
    H.claim("euler", len(P) - len(E) + len(got) == 2)
    H.claim("num_edges", int(poly.num_edges) == len(E))
    if convex_cls:
        # simplices triangulate the faces
        okS = True
        for fi, cs in enumerate(poly._coplanar_simplices):
            tri = [set(int(x) for x in poly.simplices[int(c)]) for c in cs]
            if len(tri) != len(got[fi]) - 2 or set().union(*tri) != set(got[fi]):
                okS = False
        H.claim("simplices_triangulate_faces", okS)
        tris = [(P[int(t[0])], P[int(t[1])], P[int(t[2])]) for t in poly.simplices]
        Vol, _, _ = O.polyhedron_moments(tris)
        H.claim("simplices_outward_oriented", H.and_(*[O.det3(O.sub(b, a), O.sub(c, a), O.sub(cen, a)) < 0 for a, b, c in tris]))
        H.claim_eq("volume=signed_simplex_sum", poly.volume, Vol)


def make_convex_body(shape, quat, perm_k, free=False):
    base = SH.CONVEX[shape]
    facets = SH.convex_facets(base)
    n = len(base)
    r = random.Random(77 + perm_k)
    perm = list(range(n))
    if perm_k == 1:
        perm.reverse()
    elif perm_k > 1:
        r.shuffle(perm)
    inv = {b: i for i, b in enumerate(perm)}

    def body(H, V):
        from coxeter.shapes import ConvexPolyhedron

        if free:
            P0 = [[V["v%d%d" % (i, k)] for k in range(3)] for i in range(n)]
        else:
            P0 = SH.place(base, quat, V["s"], [V["tx"], V["ty"], V["tz"]])
        inp = [P0[perm[i]] for i in range(n)]
        poly = ConvexPolyhedron(H.arr(inp))
        _structure_claims(H, poly, inp, [[inv[b] for b in f] for f in facets])
        # dihedral angle argument: cos(phi) = -n_i . n_j for neighbours
        i = 0
        j = int(poly.neighbors[0][0])
        ni = [poly._equations[i][k] for k in range(3)]
        nj = [poly._equations[j][k] for k in range(3)]
        phi = poly.get_dihedral(i, j)
        H.claim_eq("cos_dihedral", H.cos(phi), -O.dot(ni, nj))

    return body


def _scramble(facets, k):
    """Permute the face list, rotate / reverse the vertex cycle inside faces (seeded)."""
    r = random.Random(500 + k)
    fs = [list(f) for f in facets]
    r.shuffle(fs)
    out = []
    for f in fs:
        rot = r.randrange(len(f))
        g = f[rot:] + f[:rot]
        if r.random() < 0.5:
            g = g[::-1]
        out.append(g)
    if k % 3 == 2:
        # arbitrary order inside convex faces
        out = [r.sample(f, len(f)) for f in out]
    return out


def make_sortfaces_body(shape, quat, k, merge=False):
    base = SH.CONVEX[shape]
    facets = SH.convex_facets(base)
    if merge:
        given = [list(t) for f in facets for t in SH.fan(f)]
        r = random.Random(900 + k)
        r.shuffle(given)
        given = [g if r.random() < 0.5 else g[::-1] for g in given] if k % 2 else given
    else:
        given = _scramble(facets, k)

    def body(H, V):
        from coxeter.shapes import Polyhedron
        import numpy as rnp

        P = SH.place(base, quat, V["s"], [V["tx"], V["ty"], V["tz"]])
        poly = Polyhedron(H.arr(P), [rnp.array(f) for f in given], faces_are_convex=True)
        if merge:
            poly.merge_faces()
        else:
            poly.sort_faces()
        _structure_claims(H, poly, P, facets, convex_cls=False)
        H.claim("volume_positive", poly.volume > 0)

    return body


def _fns():
    from coxeter.shapes import ConvexPolyhedron as C, Polyhedron as Pn, ConvexPolygon
    from symx.loader import functions_encoded

    return functions_encoded([C.__init__, C._consume_hull, C._combine_simplices, C._sort_simplices, C.sort_faces, C._find_equations, Pn._find_neighbors,
                              Pn._get_face_intersections, Pn.edges.func, Pn.sort_faces, Pn.merge_faces, Pn._find_equations, Pn.get_dihedral,
                              ConvexPolygon.__init__, ConvexPolygon._reorder_verts])


def _tabulated_ob(famname):
    """Finite domain: every tabulated solid (index enumerated by z3) through the real constructor, natively; the
    combinatorial structure is compared with an independent float reference (harness/floathull.py): faces = hull facets,
    counter-clockwise from outside, neighbours = faces sharing an edge (symmetric), edges = face edges once each with i < j,
    Euler's formula.  Reaches 120 vertices / 92 faces / faces of degree 10 (the symbolic obligations stop at 12 vertices)."""
    def run():
        import numpy as rnp
        import coxeter.families as Fm
        from coxeter.shapes import ConvexPolyhedron
        from . import floathull

        fam = Fm.DOI_SHAPE_REPOSITORIES["10.1126/science.1220869"][0] if famname == "science1220869" else getattr(Fm, famname)
        names = list(fam.names)
        R = rnp.array(O.rot_from_quat(F(2, 7), F(3, 7), F(-6, 7), F(0)), dtype=float)

        def fn(i):
            base = rnp.asarray(fam.get_shape(names[i]).vertices, dtype=float)
            rng = rnp.random.default_rng(7000 + i)
            V = base[rng.permutation(len(base))] @ R.T + rnp.array([-1.5, 2.25, 0.75])
            ref = floathull.facets(V)
            p = ConvexPolyhedron(V.copy())
            bad = []
            want = {tuple(sorted(idx)): (idx, nrm) for idx, nrm in ref}
            got = [[int(x) for x in f] for f in p.faces]
            if sorted(tuple(sorted(f)) for f in got) != sorted(want):
                return False, "%s: faces are not the hull facets (%d vs %d)" % (names[i], len(got), len(want))
            for fi, f in enumerate(got):
                idx, nrm = want[tuple(sorted(f))]
                k = idx.index(f[0])
                if idx[k:] + idx[:k] != f:
                    bad.append("face %d not counter-clockwise from outside" % fi)
                    break
                eq = p.equations[fi]
                if abs(float(rnp.dot(eq[:3], nrm)) - 1) > 1e-9 or abs(float(rnp.dot(eq[:3], V[f[0]]) + eq[3])) > 1e-9:
                    bad.append("equation %d is not the unit outward normal of its face" % fi)
                    break
            def fedges(f):
                return {(min(a, b), max(a, b)) for a, b in zip(f, f[1:] + f[:1])}
            E = [fedges(f) for f in got]
            alle = set().union(*E)
            nb_want = [sorted(j for j in range(len(got)) if j != i2 and E[i2] & E[j]) for i2 in range(len(got))]
            nb_got = [sorted(int(x) for x in ns) for ns in p.neighbors]
            if nb_got != nb_want:
                bad.append("neighbours differ from the faces sharing an edge (first difference at face %d)" % next(k for k in range(len(got)) if nb_got[k] != nb_want[k]))
            ed = [(int(a), int(b)) for a, b in p.edges]
            if sorted(ed) != sorted(alle) or len(ed) != len(set(ed)) or any(a >= b for a, b in ed) or int(p.num_edges) != len(alle):
                bad.append("edge list differs from the face edges (%d vs %d)" % (len(ed), len(alle)))
            if len(V) - len(alle) + len(got) != 2:
                bad.append("V - E + F != 2")
            return (not bad), ("%s: %s" % (names[i], "; ".join(bad[:3])) if bad else "")

        return common.run_z3_enum("C07/tabulated." + famname, 0, len(names), fn, describe=lambda i: names[i],
                                  bounds="all %d entries of %s (up to 120 vertices), vertices permuted, rotated, off-origin; real constructor on float64 vs an independent brute-force facet enumeration" % (len(names), famname),
                                  functions=["coxeter.shapes.ConvexPolyhedron.__init__ / faces / equations / neighbors / edges / num_edges"])

    return ("C07/tabulated." + famname, run)


def obligations(tier, seed):
    obs = []
    for famname in ("PlatonicFamily", "ArchimedeanFamily", "CatalanFamily", "PrismAntiprismFamily", "PyramidDipyramidFamily", "JohnsonFamily", "science1220869"):
        obs.append(_tabulated_ob(famname))
    first = dict(s=F(3, 2), tx=F(7, 3), ty=F(-5, 2), tz=F(11, 4))
    mp = 2 if tier == "quick" else 8

    def add(name, body, names=("s", "tx", "ty", "tz"), positive=("s",), pre=None, fs=first, hull_variant=0, bounds="", budget=None):
        def setup(ctx):
            ctx.hull_variant = hull_variant
            ctx.kabsch_t = None if hull_variant % 2 == 0 else (F(3, 5), F(4, 5))

        obs.append((name, lambda: run_e2(name, list(names), body, positive=list(positive), pre=pre, setup=setup, functions=_fns(), first_sample=fs,
                                         max_paths=mp, budget_s=budget or (150 if tier == "quick" else 900),
                                         stubs=["ConvexHull -> exact hull, output variant %d" % hull_variant, "kabsch -> contract"], bounds=bounds)))

    quick_c = [("tetra", "r1", 1, 1), ("cube", "id", 2, 3), ("box", "r2", 0, 0), ("pyramid", "r3", 2, 4), ("prism3", "rz90", 1, 2), ("octa", "r1", 2, 5),
               ("frustum", "r2", 0, 6), ("wedge", "id", 2, 1), ("skew", "r3", 1, 0), ("cubocta", "r1", 0, 2)]
    cfg_c = list(quick_c)
    if tier == "thorough":
        for sh in SH.CONVEX:
            for q in SH.QUATS:
                for pk in (0, 2, 4):
                    cfg_c.append((sh, q, pk, (pk + len(sh)) % 9))
        cfg_c = sorted(set(cfg_c))
    for sh, q, pk, hv in cfg_c:
        add("C07/convex.%s.%s.perm%d.hull%d" % (sh, q, pk, hv), make_convex_body(sh, q, pk), hull_variant=hv,
            bounds="ConvexPolyhedron(%s, %d vertices), free scale/translation, rotation %s, vertex order perm%d, hull output variant %d" % (sh, len(SH.CONVEX[sh]), q, pk, hv))
    quick_s = [("cube", "r1", 0), ("cube", "id", 2), ("prism3", "r2", 1), ("pyramid", "id", 2), ("skew", "r1", 0), ("octa", "r3", 1), ("frustum", "rz90", 2)]
    quick_s += [("cubocta", "id", k) for k in range(6)] + [("cutcube", "r1" if k % 2 else "id", k) for k in range(8)] + [("skew", "id", k) for k in (1, 3, 4)]
    cfg_s = list(quick_s)
    if tier == "thorough":
        for sh in SH.CONVEX:
            for k in range(6):
                cfg_s.append((sh, list(SH.QUATS)[k % len(SH.QUATS)], k))
        cfg_s = sorted(set(cfg_s))
    for sh, q, k in cfg_s:
        add("C07/sort_faces.%s.%s.scramble%d" % (sh, q, k), make_sortfaces_body(sh, q, k),
            bounds="Polyhedron.sort_faces on %s with scrambled faces (seed %d: shuffled list, rotated / reversed%s cycles), free placement, rotation %s"
                   % (sh, k, " / arbitrarily ordered" if k % 3 == 2 else "", q))
    quick_m = [("cube", "r1", 0), ("prism3", "id", 1), ("frustum", "r2", 0), ("skew", "id", 1), ("cubocta", "r1", 0)]
    cfg_m = list(quick_m)
    if tier == "thorough":
        for sh in SH.CONVEX:
            for k in range(3):
                cfg_m.append((sh, list(SH.QUATS)[(k + 1) % len(SH.QUATS)], k))
        cfg_m = sorted(set(cfg_m))
    for sh, q, k in cfg_m:
        add("C07/merge_faces.%s.%s.tri%d" % (sh, q, k), make_sortfaces_body(sh, q, k, merge=True),
            bounds="Polyhedron.merge_faces on the triangulated surface of %s (triangle list shuffled%s), free placement, rotation %s" % (sh, ", mixed windings" if k % 2 else "", q))
    # tetrahedron with all coordinates free, through the whole constructor
    names = ["v%d%d" % (i, k) for i in range(4) for k in range(3)]
    base = SH.CONVEX["tetra"]
    fs = {"v%d%d" % (i, k): F(base[i][k]) + F(i + 2 * k, 7) for i in range(4) for k in range(3)}

    def pre(V):
        P = [[V["v%d%d" % (i, k)] for k in range(3)] for i in range(4)]
        facets = SH.convex_facets(base)
        # same orientation class as the base tetrahedron
        d0 = O.det3(O.sub(base[1], base[0]), O.sub(base[2], base[0]), O.sub(base[3], base[0]))
        d = O.det3(O.sub(P[1], P[0]), O.sub(P[2], P[0]), O.sub(P[3], P[0]))
        return [d > 0 if d0 > 0 else d < 0]

    if tier == "thorough":
        add("C07/convex.free_tetra", make_convex_body("tetra", "id", 0, free=True), names=names, positive=(), pre=pre, fs=fs,
            bounds="ConvexPolyhedron on a tetrahedron with all 12 coordinates free (fixed orientation class), whole constructor; path budget", budget=2500)
    return obs
