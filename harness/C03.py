"""C03 - mutable shapes stay coherent under any history of mutations.

Every public mutating operation (setters found by reflection, diagonalize_inertia, merge_faces,
sort_faces, to_hoomd) is executed with *symbolic arguments* (free positive targets, free new
centroids; for diagonalize_inertia the eigh contract supplies orthogonal matrices incl. an improper
one) on base shapes of all six vertex-based classes; histories of depth 1 (whole alphabet) and
depth 2 / 3 (pairs / triples from a reduced alphabet).  After the history every public observable
of the mutated object is compared with the same observable of a *freshly constructed* shape built
through the real constructor from the mutated object's current vertices (faces, normal, radius):
a stored field that lags is a disequality the solver witnesses.  Mirror clause: the orientation
determinant of a fixed vertex quadruple keeps its sign across diagonalize_inertia.
"""
import itertools
from fractions import Fraction as F

from . import common, oracles as O, shapes as SH
from . import C08
from .common import run_e2

LEVEL = "model_checking"
TECHNIQUE = "symbolic execution of mutation histories (symbolic arguments) and comparison of every observable with a freshly constructed shape; z3 decides the equalities"
ASSUMPTIONS = [
    "A1 reals not floats",
    "np.linalg.eigh replaced by its contract: returns an orthogonal matrix (a proper and an improper rational one are tried); a mirror finding is only reported if the real eigh reproduces it on the float64 code",
    "qhull / kabsch / lstsq / miniball as contract stubs; base shapes concrete rational, off-origin, chiral",
    "histories: depth 1 over the whole alphabet, depth 2 (quick) / 3 (thorough) over a reduced alphabet",
]

FULL_OBS = False  # thorough tier: also compare the inertia tensors (derived from fields that are all compared anyway)
Q_PROPER = O.rot_from_quat(1, 2, 2, 0)
Q_IMPROPER = [[-r for r in row] for row in O.rot_from_quat(2, 1, -1, 3)]


def _key(face):
    return tuple(sorted(int(i) for i in face))


def _cycle(face):
    f = [int(i) for i in face]
    m = f.index(min(f))
    return tuple(f[m:] + f[:m])


WITH_FF = [False]  # set per history: the form factor joins the observables in histories that start with "observe"


def observables(s, H):
    """(concrete dict, symbolic dict) of public observables in order-insensitive canonical form."""
    kind = type(s).__name__
    conc, sym = {}, {}
    if kind in ("Polygon", "ConvexPolygon"):
        sym["vertices"] = s.vertices
        sym["normal"] = s.normal
        sym["area"] = s.area
        sym["signed_area"] = s.signed_area
        sym["perimeter"] = s.perimeter
        sym["centroid"] = s.centroid
        sym["inertia_tensor"] = s.inertia_tensor
    elif kind == "ConvexSpheropolygon":
        sym["vertices"] = s.vertices
        sym["radius"] = s.radius
        sym["area"] = s.area
        sym["perimeter"] = s.perimeter
        sym["normal"] = s.normal
    elif kind in ("Polyhedron", "ConvexPolyhedron"):
        sym["vertices"] = s.vertices
        faces = [list(f) for f in s.faces]
        keys = [_key(f) for f in faces]
        conc["faces"] = sorted(keys)
        conc["face_cycles"] = sorted(_cycle(f) for f in faces)
        order = sorted(range(len(faces)), key=lambda i: keys[i])
        eq = s._equations
        sym["equations"] = [[eq[i][k] for k in range(4)] for i in order]
        nb = set()
        for i, ns in enumerate(s.neighbors):
            for j in ns:
                nb.add(frozenset((keys[i], keys[int(j)])))
        conc["neighbors"] = sorted(sorted(p) for p in nb)
        conc["edges"] = sorted(tuple(int(x) for x in e) for e in s.edges)
        conc["num_edges"] = int(s.num_edges)
        sym["volume"] = s.volume
        sym["surface_area"] = s.surface_area
        sym["centroid"] = s.centroid
        if kind == "ConvexPolyhedron":
            fa = s.get_face_area()
            sym["face_areas"] = [fa[i] for i in order]
            # the triangulation of a non-triangular facet is not unique (a fresh hull may pick another diagonal), so the
            # simplices are compared through triangulation-invariant facts: per face, how many and which vertices they cover
            per = {}
            for fi, cs in enumerate(s._coplanar_simplices):
                tri = [tuple(sorted(int(x) for x in s.simplices[int(c)])) for c in cs]
                per[keys[fi]] = (len(tri), tuple(sorted(set(x for t in tri for x in t))))
            conc["simplices_per_face"] = sorted(per.items())
            se = s._simplex_equations
            diffs = []
            for fi, cs in enumerate(s._coplanar_simplices):
                for c in cs:
                    diffs.append([se[int(c)][k] - eq[fi][k] for k in range(4)])
            sym["simplex_plane_minus_face_plane"] = diffs
            if FULL_OBS:
                sym["inertia_tensor"] = s.inertia_tensor
            sym["centered_insphere_radius"] = s.maximal_centered_bounded_sphere.radius
    elif kind == "ConvexSpheropolyhedron":
        sym["vertices"] = s.vertices
        sym["radius"] = s.radius
        sym["volume"] = s.volume
        sym["surface_area"] = s.surface_area
    if kind in ("Polygon", "ConvexPolygon") or (FULL_OBS and kind in ("Polyhedron", "ConvexPolyhedron")):
        # containment at probe points tied to the current vertices (affine combinations: in the plane for polygons);
        # a query also fills whatever the implementation caches for it
        vs = [list(v) for v in s.vertices]
        n = len(vs)
        vm = [sum(v[k] for v in vs) / n for k in range(3)]
        probes = [[vm[k] + (vs[0][k] - vm[k]) / 7 for k in range(3)], [vs[0][k] + 2 * (vs[0][k] - vm[k]) for k in range(3)],
                  [(vs[0][k] + vs[1][k] + vs[2][k]) / 3 + (vm[k] - vs[0][k]) / 50 for k in range(3)]]
        res = s.is_inside(H.arr(probes))
        conc["is_inside"] = [bool(x) for x in res]
    if WITH_FF[0] and kind in ("Polygon", "ConvexPolygon"):  # (polyhedra: too many uninterpreted values per path; C12 has a resize-then-evaluate obligation)
        # form factor at one generic wave vector, cos / sin uninterpreted (congruence): equal geometry gives equal terms
        q = H.arr([[H.num(F(1, 2)), H.num(F(-1, 3)), H.num(F(1, 4))]])
        if H.symbolic:
            from symx import core as sc

            sc.CTX.trig_opaque = True
            try:
                ff = s.compute_form_factor_amplitude(q)[0]
            finally:
                sc.CTX.trig_opaque = False
            sym["form_factor.re"], sym["form_factor.im"] = ff.re, ff.im
        else:
            ff = complex(s.compute_form_factor_amplitude(q)[0])
            sym["form_factor.re"], sym["form_factor.im"] = ff.real, ff.imag
    return conc, sym


def fresh(s, H):
    import coxeter.shapes as S
    import numpy as rnp

    kind = type(s).__name__
    if kind == "Polygon":
        return S.Polygon(H.arr(s.vertices), normal=H.arr(s.normal), test_simple=False)
    if kind == "ConvexPolygon":
        return S.ConvexPolygon(H.arr(s.vertices), normal=H.arr(s.normal))
    if kind == "ConvexSpheropolygon":
        return S.ConvexSpheropolygon(H.arr(s.vertices), s.radius, normal=H.arr(s.normal))
    if kind == "Polyhedron":
        return S.Polyhedron(H.arr(s.vertices), [rnp.array([int(i) for i in f]) for f in s.faces], faces_are_convex=s._faces_are_convex)
    if kind == "ConvexPolyhedron":
        return S.ConvexPolyhedron(H.arr(s.vertices))
    if kind == "ConvexSpheropolyhedron":
        return S.ConvexSpheropolyhedron(H.arr(s.vertices), s.radius)
    raise KeyError(kind)


def _orient_sign(s, H, quad=None):
    """Orientation determinant of a fixed non-coplanar vertex quadruple (chosen on the first call)."""
    core = getattr(s, "polyhedron", None) or s
    v = core.vertices
    if quad is None:
        for k in range(3, len(v)):
            d = O.det3(O.sub(list(v[1]), list(v[0])), O.sub(list(v[2]), list(v[0])), O.sub(list(v[k]), list(v[0])))
            if abs(float(d)) > 1e-9:
                quad = (0, 1, 2, k)
                break
    a, b, c, e = quad
    return O.det3(O.sub(list(v[b]), list(v[a])), O.sub(list(v[c]), list(v[a])), O.sub(list(v[e]), list(v[a]))), quad


# ---------------------------------------------------------------- operations
DIM = {"volume": 3, "surface_area": 2, "area": 2}


def op_setter(prop):
    def f(s, H, V, i):
        # the free positive target is written as current_value * w**d (d = 3, 2, 1 for volumes, areas, lengths): a bijection of the
        # positive reals, under which the code's scale factor (a cube / square root) is the polynomial w instead of a root atom
        w = V["v%d" % i]
        d = DIM.get(prop, 1)
        cur = getattr(s, prop)
        setattr(s, prop, cur * w ** d)

    f.names = lambda i: ["v%d" % i]
    f.positive = True
    f.label = prop
    return f


def op_center(prop):
    def f(s, H, V, i):
        setattr(s, prop, H.arr([V["c%d_%d" % (i, k)] for k in range(3)]))

    f.names = lambda i: ["c%d_%d" % (i, k) for k in range(3)]
    f.positive = False
    f.label = prop
    return f


def op_method(name, eigh=None):
    def f(s, H, V, i):
        ctx = getattr(H, "ctx", None)
        if ctx is not None and eigh is not None:
            ctx.eigh_Q = [[H.num(c) for c in row] for row in (Q_PROPER if eigh == "proper" else Q_IMPROPER)]
        if name == "diagonalize_inertia":
            before, quad = _orient_sign(s, H)
            if ctx is None and eigh is not None:
                # float64 replay under the same environment: LAPACK may return any orthogonal eigenvector matrix (either
                # handedness); the harness's matrix is imposed on the real numpy for the duration of the call
                import numpy

                real = numpy.linalg.eigh
                Q = numpy.array([[float(c) for c in row] for row in (Q_PROPER if eigh == "proper" else Q_IMPROPER)])
                numpy.linalg.eigh = lambda m, *a, **k: (numpy.zeros(3), Q.copy())
                try:
                    getattr(s, name)()
                finally:
                    numpy.linalg.eigh = real
            else:
                getattr(s, name)()
            after, _ = _orient_sign(s, H, quad)
            H.claim("not_mirrored", before * after > 0)
        else:
            getattr(s, name)()

    f.names = lambda i: []
    f.positive = False
    f.label = name + ("[%s]" % eigh if eigh else "")
    return f


def op_observe():
    def f(s, H, V, i):
        observables(s, H)  # reading every public observable populates every cache

    f.names = lambda i: []
    f.positive = False
    f.label = "observe"
    return f


def alphabet(kind, reduced=False):
    import coxeter.shapes as S

    cls = getattr(S, kind.split("_")[0])
    ops = []
    props = C08.settable(kind)
    if reduced:
        keep = {"volume", "surface_area", "area", "perimeter", "centroid", "center", "radius", "insphere_radius", "circumcircle_radius"}
        props = [p for p in props if p in keep]
    for p in props:
        if "minimal_bounding" in p:
            continue  # read-back of the getter needs miniball on symbolic points
        ops.append(op_center(p) if p in ("center", "centroid") else op_setter(p))
    if hasattr(cls, "diagonalize_inertia"):
        ops.append(op_method("diagonalize_inertia", "proper"))
        ops.append(op_method("diagonalize_inertia", "improper"))
    for m in ("merge_faces", "sort_faces", "to_hoomd"):
        if hasattr(cls, m):
            ops.append(op_method(m))
    ops.append(op_observe())
    return ops


def _mk(kind, H, variant):
    """Base objects: C08's off-origin shapes; Polyhedron variants for merge_faces."""
    import coxeter.shapes as S
    import numpy as rnp

    if kind == "Polyhedron" and variant == "tri_cube":
        base = SH.CONVEX["cube"]
        faces = [t for f in SH.convex_facets(base) for t in SH.fan(f)]
        v = SH.place(base, "r1", 1, C08.OFF)
        return S.Polyhedron(H.arr([[H.num(c) for c in p] for p in v]), [rnp.array(f) for f in faces])
    if kind == "Polyhedron" and variant == "skew":
        base = SH.CONVEX["skew"]
        v = SH.place(base, "r2", 1, C08.OFF)
        return S.Polyhedron(H.arr([[H.num(c) for c in p] for p in v]), [rnp.array(f) for f in SH.convex_facets(base)], faces_are_convex=True)
    return C08._mk(kind, H)


def _raw_state(s):
    core = getattr(s, "polygon", None) or getattr(s, "polyhedron", None) or s
    st = dict(vertices=[list(r) for r in core._vertices])
    if hasattr(core, "_faces"):
        st["faces"] = [[int(i) for i in f] for f in core._faces]
    if hasattr(s, "_radius"):
        st["radius"] = [s._radius]
    if hasattr(core, "_normal"):
        st["normal"] = list(core._normal)
    if hasattr(core, "_equations"):
        st["equations"] = [list(r) for r in core._equations]
    return st


def make_body(kind, variant, ops):
    def body(H, V):
        from symx import core as sc

        WITH_FF[0] = bool(ops) and ops[0].label == "observe" and len(ops) > 1
        s = _mk(kind, H, variant)
        for i, op in enumerate(ops):
            before = _raw_state(s)
            try:
                op(s, H, V, i)
            except (NotImplementedError, AttributeError) as ex:
                H.ok("op_not_available[%d:%s]" % (i, op.label), str(ex)[:80])
                return
            except (RuntimeError, ValueError) as ex:
                # an operation may be undefined for this shape (no insphere, non-convex merged face, ...): then it must leave the shape as it was
                after = _raw_state(s)
                for k in before:
                    if k == "faces":
                        if before[k] == after[k]:
                            H.ok("unchanged_after_exception:faces")
                        else:
                            H.fail("unchanged_after_exception:faces", "%s raised %s: %s; faces before %r after %r" % (op.label, type(ex).__name__, str(ex)[:60], before[k][:3], after[k][:3]))
                    else:
                        H.claim_all_eq("unchanged_after_exception:" + k, after[k], before[k])
                return
            if op.label == "to_hoomd":
                # to_hoomd centres the shape temporarily to compute its answer: afterwards the shape is where it was
                after = _raw_state(s)
                H.claim_all_eq("to_hoomd_restores_the_shape:vertices[%d]" % i, after["vertices"], before["vertices"])
        f = fresh(s, H)
        c1, s1 = observables(s, H)
        c2, s2 = observables(f, H)
        for k in c1:
            if c1[k] == c2[k]:
                H.ok("same:" + k)
            else:
                H.fail("same:" + k, "mutated %r vs fresh %r" % (str(c1[k])[:150], str(c2[k])[:150]))
        for k in s1:
            if k == "simplex_plane_minus_face_plane":
                H.claim_all_eq("coherent:" + k, s1[k], [[0, 0, 0, 0] for _ in s1[k]])
                continue
            H.claim_all_eq("same:" + k, s1[k], s2[k])

    return body


def _ob(kind, variant, ops, tier):
    label = "+".join(o.label for o in ops)
    name = "C03/%s%s/%s" % (kind, "." + variant if variant else "", label)
    names, pos = [], []
    for i, o in enumerate(ops):
        ns = o.names(i)
        names += ns
        if o.positive:
            pos += ns
    if not names:
        names = ["dummy"]
    first = {}
    for n in names:
        first[n] = F(7, 3) if n.startswith("v") else F(1 + len(n) % 3, 2)
    import coxeter.shapes as S
    from symx.loader import functions_encoded

    cls = getattr(S, kind.split("_")[0])
    fl = [cls._rescale]
    for o in ops:
        base = o.label.split("[")[0]
        a = getattr(cls, base, None)
        fl.append(a.fset if isinstance(a, property) else a)
    fns = functions_encoded([x for x in fl if x is not None])
    def pre(V):
        # scale factors within 1/4 .. 10 per operation: polytri's thresholds are inactive there (their effect is C09's subject)
        cs = []
        for n in pos:
            cs += [V[n] >= F(1, 4), V[n] <= 10]
        return cs

    return (name, lambda: run_e2(name, names, make_body(kind, variant, ops), positive=pos, pre=pre, functions=fns, first_sample=first,
                                 max_paths=(2 if tier == "quick" else 10), budget_s=(120 if tier == "quick" else 900), natoms=120,
                                 stubs=["eigh -> orthogonal matrix by contract", "ConvexHull -> exact hull", "kabsch -> contract", "lstsq -> exact"],
                                 bounds="%s base shape%s (concrete rational, off-origin); history %s with symbolic arguments; path budget"
                                        % (kind, " " + variant if variant else "", label)))


def obligations(tier, seed):
    global FULL_OBS
    FULL_OBS = tier == "thorough"
    obs = []
    kinds = [("Polygon", None), ("Polygon_cw", None), ("ConvexPolygon", None), ("ConvexSpheropolygon", None), ("Polyhedron", None), ("Polyhedron", "tri_cube"),
             ("Polyhedron", "skew"), ("ConvexPolyhedron", None), ("ConvexSpheropolyhedron", None)]
    d1 = [k for k in kinds if not (tier == "quick" and k[1] == "skew")]
    for kind, var in d1:
        for op in alphabet(kind):
            obs.append(_ob(kind, var, [op], tier))
    if tier == "quick":
        # polygons: look at everything, mutate, look again
        for kind, var in (("Polygon", None), ("ConvexPolygon", None)):
            red = [o for o in alphabet(kind, reduced=True)]
            obsop = [o for o in red if o.label == "observe"][0]
            for o in red:
                if o.label != "observe":
                    obs.append(_ob(kind, var, [obsop, o], tier))
        pair_kinds = [("Polyhedron", "tri_cube"), ("ConvexPolyhedron", None), ("ConvexSpheropolygon", None)]
        want = ("volume", "area", "centroid", "diagonalize_inertia[proper]", "merge_faces", "to_hoomd", "observe")
        for kind, var in pair_kinds:
            red = [o for o in alphabet(kind, reduced=True) if o.label in want]
            for hist in itertools.product(red, repeat=2):
                if hist[0].label == hist[1].label == "observe":
                    continue
                obs.append(_ob(kind, var, list(hist), tier))
    else:
        for kind, var in kinds:
            red = alphabet(kind, reduced=True)
            for hist in itertools.product(red, repeat=2):
                obs.append(_ob(kind, var, list(hist), tier))
            small = red[:2] + [o for o in red if "[proper" in o.label or o.label in ("merge_faces", "to_hoomd")][:3]
            for hist in itertools.product(small, repeat=3):
                obs.append(_ob(kind, var, list(hist), tier))
    seen = set()
    out = []
    for n, f in obs:
        if n not in seen:
            seen.add(n)
            out.append((n, f))
    return out
