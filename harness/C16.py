"""C16 - queries are free of side effects.

Every public property and query method of every shape class is enumerated by reflection.  On a base
shape placed by a *free translation* (3 reals, so "away from the origin" is every position), each
query - and each ordered pair of queries in the thorough tier - is executed; afterwards the raw
state of the object (vertices, faces, radii, normals, plane equations, centroid), every array the
shape had handed out *before* the query, and every array passed as an argument must be unchanged
as symbolic terms (an identity in the translation), and repeating the query must give the same
answer.
"""
import itertools
import os
import tempfile
from fractions import Fraction as F

from . import common, oracles as O, shapes as SH
from . import C08
from .common import run_e2

LEVEL = "model_checking"
TECHNIQUE = "symbolic execution of every public query (reflection) on shapes with a free translation; state / handed-out arrays / arguments before and after compared as terms, z3 decides the identities"
ASSUMPTIONS = [
    "A1 reals not floats: translate-and-restore is exact in the model, so 'unchanged' is claimed exactly",
    "plot / to_plato_scene (matplotlib / plato back ends) are excluded; form factors are covered by C12",
    "queries the numpy shim cannot model (listed in the evidence as not_modelled) are excluded rather than sampled",
]
EXCLUDE = {"plot", "to_plato_scene", "bounding_circle", "bounding_sphere", "insphere_from_center", "circumsphere_from_center", "incircle_from_center"}
KINDS = ["Circle", "Ellipse", "Sphere", "Ellipsoid", "Polygon", "ConvexPolygon", "ConvexSpheropolygon", "Polyhedron", "ConvexPolyhedron", "ConvexSpheropolyhedron",
         # polygons whose vertices run clockwise about the stored normal: explicit opposite normal / reflex first corner with the default normal
         "Polygon.cw", "Polygon.reflex_first"]


def _mk(kind, H, V):
    import coxeter.shapes as S
    import numpy as rnp

    t = [V["tx"], V["ty"], V["tz"]]
    if kind == "Circle":
        return S.Circle(H.num(F(3, 2)), t)
    if kind == "Sphere":
        return S.Sphere(H.num(F(3, 2)), t)
    if kind == "Ellipse":
        return S.Ellipse(H.num(F(3, 2)), H.num(2), t)
    if kind == "Ellipsoid":
        return S.Ellipsoid(H.num(F(3, 2)), H.num(2), H.num(F(5, 4)), t)

    def placed(verts, quat):
        return H.arr([[c for c in p] for p in SH.place(verts, quat, 1, t)])

    if kind == "Polygon":
        return S.Polygon(placed([(x, y, 0) for x, y in SH.POLYGONS["arrow"]], "r1"), test_simple=False)
    if kind == "Polygon.cw":
        R = O.rot_from_quat(*SH.QUATS["r1"])
        nrm = [-x for x in O.matvec(R, [F(0), F(0), F(1)])]
        return S.Polygon(placed([(x, y, 0) for x, y in SH.POLYGONS["arrow"]], "r1"), normal=H.arr([H.num(x) for x in nrm]), test_simple=False)
    if kind == "Polygon.reflex_first":
        a = SH.POLYGONS["arrow"]
        return S.Polygon(placed([(x, y, 0) for x, y in a[1:] + a[:1]], "r2"), test_simple=False)
    if kind == "ConvexPolygon":
        return S.ConvexPolygon(placed([(x, y, 0) for x, y in SH.POLYGONS["quad"]], "id"))
    if kind == "ConvexSpheropolygon":
        v = [[V["tx"] + x, V["ty"] + y, 0 * V["tx"]] for x, y in SH.POLYGONS["quad"]]
        return S.ConvexSpheropolygon(H.arr(v), H.num(F(1, 2)))
    if kind == "Polyhedron":
        base, faces = SH.nonconvex("L_prism")
        return S.Polyhedron(placed(base, "r1"), [rnp.array(f) for f in faces], faces_are_convex=True)
    if kind == "ConvexPolyhedron":
        return S.ConvexPolyhedron(placed(SH.CONVEX["pyramid"], "r2"))  # vertex mean != centroid
    if kind == "ConvexSpheropolyhedron":
        # a core whose vertex mean differs from its centroid (a box would hide any confusion of the two)
        return S.ConvexSpheropolyhedron(placed(SH.CONVEX["pyramid"], "id"), H.num(F(1, 2)))
    raise KeyError(kind)


def queries(kind):
    import coxeter.shapes as S

    cls = getattr(S, kind.split(".")[0])
    out = []
    for n in sorted(dir(cls)):
        if n.startswith("_") or n in EXCLUDE:
            continue
        a = getattr(cls, n)
        if isinstance(a, property) or hasattr(a, "func") or callable(a):
            out.append(n)
    return out


def _call(s, name, H, V, keep):
    """Run one query; array arguments are registered in ``keep`` (object, copy)."""
    import coxeter.shapes as S

    cls = type(s)
    a = getattr(cls, name, None)
    if isinstance(a, property) or not callable(a):
        return getattr(s, name)
    if name == "is_inside":
        c = getattr(s, "polygon", None) or getattr(s, "polyhedron", None) or s
        base = c.vertices[0] if hasattr(c, "vertices") else s.centroid
        pts = H.arr([[base[0] + F(1, 3), base[1] - F(1, 7), base[2] + (0 if "olyg" in type(s).__name__ or type(s).__name__ in ("Circle", "Ellipse") else F(1, 5))],
                     [base[0] + 9, base[1], base[2]]])
        keep.append((pts, [list(r) for r in pts]))
        return s.is_inside(pts)
    if name == "distance_to_surface":
        ang = H.arr([H.pi / 4, H.pi * 0, H.pi, -3 * H.pi / 4]) if H.symbolic else H.arr([H.pi / 4, 0.0, H.pi, -3 * H.pi / 4])  # not pi/2: tan is exact there
        keep.append((ang, list(ang)))
        return s.distance_to_surface(ang)
    if name == "compute_form_factor_amplitude":
        # the amplitudes themselves are C12's subject; here cos / sin are uninterpreted (congruence only) and only the
        # effect of the call on the shape, on handed-out arrays and on the argument is claimed
        q = H.arr([[H.num(F(1, 2)), H.num(F(-1, 3)), H.num(F(1, 4))], [H.num(0), H.num(0), H.num(0)]])
        keep.append((q, [list(r) for r in q]))
        if H.symbolic:
            from symx import core

            core.CTX.trig_opaque = True
            try:
                res = s.compute_form_factor_amplitude(q)
            finally:
                core.CTX.trig_opaque = False
        else:
            res = s.compute_form_factor_amplitude(q)
        return [abs(z) * 0 for z in res] if not H.symbolic else [0 for _ in res]
    if name == "get_face_area":
        return s.get_face_area()
    if name == "get_dihedral":
        return s.get_dihedral(0, int(s.neighbors[0][0]))
    if name == "to_json":
        return s.to_json(["centroid"] if hasattr(s, "centroid") and type(s).__name__ not in ("ConvexSpheropolygon", "ConvexSpheropolyhedron") else ["radius"])
    if name == "save":
        d = tempfile.mkdtemp(prefix="c16_")
        out = []
        for ft in ("OBJ", "OFF", "STL", "PLY", "VTK", "X3D", "HTML"):
            p = os.path.join(d, "f." + ft.lower())
            s.save(ft, p)
            out.append(open(p).read()[:200000])
            os.remove(p)
        os.rmdir(d)
        return out
    if name in ("merge_faces", "sort_faces", "diagonalize_inertia"):
        raise NotImplementedError("mutator (C03)")
    return getattr(s, name)()


def _flat(x, out, path=""):
    """Flatten a result into (path, leaf) pairs; shapes are described through their repr."""
    import numpy as rnp

    if isinstance(x, dict):
        for k in sorted(x, key=str):
            _flat(x[k], out, path + "." + str(k))
    elif isinstance(x, (list, tuple)):
        out.append((path + ".len", len(x)))
        for i, v in enumerate(x):
            _flat(v, out, path + "[%d]" % i)
    elif isinstance(x, rnp.ndarray):
        out.append((path + ".shape", tuple(x.shape)))
        for i, v in enumerate(x.flat):
            out.append((path + "[%d]" % i, v))
    elif hasattr(x, "_rescale"):  # a coxeter shape
        out.append((path + ".repr", repr(x)))
    else:
        out.append((path, x))


def _raw(s):
    core = getattr(s, "polygon", None) or getattr(s, "polyhedron", None) or s
    st = {}
    for nm in ("_vertices", "_normal", "_equations", "_simplex_equations", "_centroid"):
        if hasattr(core, nm):
            st[nm] = getattr(core, nm)
    for nm in ("_radius", "_a", "_b", "_c", "_centroid", "_volume", "_area"):
        if hasattr(s, nm):
            st["s" + nm] = getattr(s, nm)
        if core is not s and hasattr(core, nm):
            st["c" + nm] = getattr(core, nm)
    if hasattr(core, "_faces"):
        st["_faces"] = [[int(i) for i in f] for f in core._faces]
    if hasattr(core, "_simplices"):
        st["_simplices"] = [[int(i) for i in f] for f in core._simplices]
    return st


def _same(H, name, a, b):
    fa, fb = [], []
    _flat(a, fa)
    _flat(b, fb)
    if [p for p, _ in fa] != [p for p, _ in fb]:
        H.fail(name, "structure differs: %r vs %r" % ([p for p, _ in fa][:6], [p for p, _ in fb][:6]))
        return
    for (p, x), (_, y) in zip(fa, fb):
        if isinstance(x, (str, bool, int, tuple, type(None))) and not hasattr(x, "num"):
            if x == y:
                continue
            H.fail(name + p, "%r vs %r" % (str(x)[:80], str(y)[:80]))
            return
        try:
            H.claim_eq(name + p, x, y)
        except TypeError:
            if not (x is y or str(x) == str(y)):
                H.fail(name + p, "%r vs %r" % (str(x)[:80], str(y)[:80]))
                return
    H.ok(name + ":structure")


def make_body(kind, seq):
    def body(H, V):
        from symx import core as sc

        try:
            return inner(H, V)
        except sc.Abort as ex:
            if "miniball" in str(ex):
                H.ok("not_applicable:miniball", "smallest enclosing ball of a symbolic point set is behind an opaque third-party routine")
                return
            raise

    def inner(H, V):
        import numpy as rnp

        s = _mk(kind, H, V)
        # arrays handed out before the queries (the live objects + copies of their content)
        handed = []
        for nm in ("vertices", "normal", "centroid", "center", "equations", "normals", "faces", "simplices"):
            try:
                a = getattr(s, nm)
            except Exception:  # noqa: BLE001
                continue
            if isinstance(a, rnp.ndarray):
                handed.append((nm, a, [x for x in a.flat]))
        before = {k: ([x for x in v.flat] if isinstance(v, rnp.ndarray) else v) for k, v in _raw(s).items()}
        keep = []
        results = []
        for q in seq:
            try:
                results.append(_call(s, q, H, V, keep))
            except NotImplementedError as ex:
                H.ok("not_applicable:" + q, str(ex)[:60])
                return
            except (RuntimeError, ValueError, ImportError) as ex:
                # a query may be undefined for the shape (no circumsphere ...): it must still leave no trace
                results.append("raised %s" % type(ex).__name__)
        after = {k: ([x for x in v.flat] if isinstance(v, rnp.ndarray) else v) for k, v in _raw(s).items()}
        _same(H, "state_unchanged", after, before)
        for nm, arr, copy in handed:
            _same(H, "handed_out_unchanged:" + nm, [x for x in arr.flat], copy)
        for i, (arr, copy) in enumerate(keep):
            _same(H, "argument_unchanged[%d]" % i, [list(r) if isinstance(r, rnp.ndarray) else r for r in arr], copy)
        # repeating the last query gives the same answer
        keep2 = []
        try:
            again = _call(s, seq[-1], H, V, keep2)
        except (RuntimeError, ValueError, ImportError) as ex:
            again = "raised %s" % type(ex).__name__
        _same(H, "repeat_same_answer", again, results[-1])

    return body


def _ob(kind, seq, tier):
    name = "C16/%s/%s" % (kind, "+".join(seq))
    import coxeter.shapes as S
    from symx.loader import functions_encoded

    cls = getattr(S, kind.split(".")[0])
    fl = []
    for q in seq:
        a = getattr(cls, q, None)
        fl.append(a.fget if isinstance(a, property) else a)
    first = dict(tx=F(7, 3), ty=F(-5, 2), tz=F(11, 4))
    return (name, lambda: run_e2(name, ["tx", "ty", "tz"], make_body(kind, seq), functions=functions_encoded([f for f in fl if f is not None]),
                                 first_sample=first, max_paths=(2 if tier == "quick" else 6), budget_s=(100 if tier == "quick" else 600),
                                 allow_status=("ok",),
                                 stubs=["qhull / kabsch / lstsq / miniball contract stubs"],
                                 bounds="%s base shape with a free translation (3 reals); query sequence %s; path budget" % (kind, "+".join(seq))))


def obligations(tier, seed):
    obs = []
    for kind in KINDS:
        qs = queries(kind)
        for q in qs:
            obs.append(_ob(kind, [q], tier))
        if tier == "thorough":
            mut = [q for q in qs if q in ("inertia_tensor", "to_hoomd", "centroid", "is_inside", "save", "volume", "area", "vertices", "edges", "get_face_area",
                                          "minimal_bounding_sphere", "minimal_bounding_circle", "insphere", "incircle")]
            for a, b in itertools.permutations(mut, 2):
                obs.append(_ob(kind, [a, b], tier))
    return obs
