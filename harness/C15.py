"""C15 - constructors accept valid geometry and reject invalid geometry.

``Polygon(test_simple=True)``: base cycles (simple, bow-tie, pentagram, comb-like) with *one free
vertex* (2 reals in a bounded box); the real ``_is_simple`` -> vendored Bentley-Ottmann sweep runs
under the path engine; on every path the outcome (object / ValueError) is compared with an exact
crossing oracle with a margin (products of orientation determinants).  Planarity: one free
off-plane displacement.  Convex classes: a free point inside / outside the hull of concrete
points, and all orders of a convex quadrilateral / pentagon.  Radii, semi-axes and rounding radii:
free reals of either sign.  Aliasing: the stored arrays never share memory with the caller's and
the caller's arrays are unchanged.
"""
import itertools
from fractions import Fraction as F

from . import common, oracles as O, shapes as SH
from .common import run_e2

LEVEL = "model_checking"
TECHNIQUE = "symbolic execution of the real constructors (incl. the Bentley-Ottmann sweep) with a free vertex / displacement / radius; accept-reject outcome per path vs an exact margin oracle decided by z3"
ASSUMPTIONS = [
    "'clearly valid / clearly invalid' = every product of orientation determinants of non-adjacent edge pairs and every consecutive-triple determinant is beyond +-MARGIN (so no vertex lies within the sweep line's 1e-10 bands of another edge: there the vendored sweep fails its own debug assertions, on the float64 code too - noted, outside the margins)",
    "A1 reals not floats; margins: orientation-determinant products beyond +-MARGIN (coordinates within [-8, 8]), off-plane displacement beyond 1 % of the size, interior depth by barycentric margin 1e-3",
    "the convex-position verdict of qhull is the exact hull stub's (qhull's own tolerances are outside)",
    "one free vertex per polygon (all-free polygons are outside the bound)",
]
MARGIN = F(1, 50)
CYCLES = {
    "quad": [(0, 0), (4, 0), (5, 3), (1, 4)],
    "bowtie": [(0, 0), (4, 0), (0, 3), (4, 3)],
    "pent": [(0, 0), (4, 0), (5, 2), (2, 5), (-1, 2)],
    "pentagram": [(0, 0), (5, 2), (-1, 2), (4, 0), (2, 5)],
    "arrow": [(0, 0), (3, -2), (2, 0), (3, 2)],
    "L": [(0, 0), (4, 0), (4, 1), (1, 1), (1, 3), (0, 3)],
}


def _o(p, q, r):
    return (q[0] - p[0]) * (r[1] - p[1]) - (q[1] - p[1]) * (r[0] - p[0])


def _pairs(n):
    out = []
    for i in range(n):
        for j in range(i + 2, n):
            if (j + 1) % n == i:
                continue
            out.append((i, (i + 1) % n, j, (j + 1) % n))
    return out


def simple_body(cname, free_idx, quat):
    base = CYCLES[cname]
    n = len(base)
    q = SH.QUATS[quat]
    R = O.rot_from_quat(*q) if q else None

    def body(H, V):
        import coxeter.shapes as S

        pts = [[F(x), F(y)] for x, y in base]
        pts[free_idx] = [V["px"], V["py"]]
        P3 = []
        for x, y in pts:
            p = [x, y, 0 * V["px"]]
            if R is not None:
                p = O.matvec(R, p)
                p = [p[0] + 3, p[1] - 2, p[2] + 5]
            P3.append(p)
        inp = H.arr(P3)
        keep = [list(r) for r in inp]
        prods = []
        for a, b, c, d in _pairs(n):
            prods.append((_o(pts[a], pts[b], pts[c]) * _o(pts[a], pts[b], pts[d]), _o(pts[c], pts[d], pts[a]) * _o(pts[c], pts[d], pts[b])))
        # margin-separated from the decision boundary: every orientation predicate that enters the crossing decision is clearly signed
        # (no vertex within the margin of a non-adjacent edge line segment pair, no nearly collinear consecutive triple)
        def clear(x):
            return H.or_(x > MARGIN, x < -MARGIN)

        separated = H.and_(*[H.and_(clear(p1), clear(p2)) for p1, p2 in prods],
                           *[clear(_o(pts[i], pts[(i + 1) % n], pts[(i + 2) % n])) for i in range(n)])
        cross_clear = H.and_(separated, H.or_(*[H.and_(p1 < -MARGIN, p2 < -MARGIN) for p1, p2 in prods]))
        simple_clear = H.and_(separated, *[H.or_(p1 > MARGIN, p2 > MARGIN) for p1, p2 in prods])
        crashed = None
        try:
            poly = S.Polygon(inp)
            accepted = True
        except ValueError:
            accepted = False
        except (AssertionError, KeyError, IndexError, ArithmeticError) as ex:
            # the sweep line's own consistency assertions fire for vertices inside its 1e-10 bands: tolerated only off the margins
            crashed = type(ex).__name__
        if crashed is not None:
            H.claim("other_outcome(%s)=>input_not_margin_separated" % crashed, H.and_(H.not_(cross_clear), H.not_(simple_clear)))
        elif accepted:
            H.claim("accepted=>not_clearly_crossing", H.not_(cross_clear))
            H.claim("stores_a_copy", not bool(__import__("numpy").shares_memory(poly._vertices, inp)))
            H.claim_all_eq("stored_vertices=input", poly.vertices, keep)
        else:
            H.claim("rejected=>not_clearly_simple", H.not_(simple_clear))
        H.claim_all_eq("caller_array_unchanged", [list(r) for r in inp], keep)

    return body


def planarity_body(H, V):
    """Quadrilateral (size 5 s) with its last vertex lifted off the plane of the first three by h s, at any scale s in
    [1e-6, 1e3] and any offset within about nine diameters: accepted => |h| < 1 % of the size; rejected => not planar."""
    import coxeter.shapes as S

    h, sc = V["h"], V["s"]
    t = [V["tx"], V["ty"], V["tz"]]
    base = [(0, 0, 0), (4, 0, 0), (5, 3, 0), (1, 4, 0)]
    R = O.rot_from_quat(1, 2, 2, 0)
    P = []
    for i, p in enumerate(base):
        q = [F(c) for c in p]
        if i == 3:
            q = [q[0], q[1], h]
        q = O.matvec(R, q)
        P.append([sc * (q[k] + 5 * t[k]) for k in range(3)])
    try:
        S.Polygon(H.arr(P), test_simple=False)
        accepted = True
    except ValueError:
        accepted = False
    if accepted:
        H.claim("accepted=>nearly_planar", H.and_(h < F(1, 20), h > -F(1, 20)))  # 1 % of the size
    else:
        H.claim("rejected=>off_plane", h != 0)


def convex_point_body(cls_name):
    """Concrete convex quadrilateral / tetrahedron + one free extra point: strictly inside => ValueError; clearly outside => accepted."""
    def body(H, V):
        import coxeter.shapes as S

        if cls_name == "ConvexPolyhedron":
            base = [(0, 0, 0), (4, 0, 0), (0, 4, 0), (0, 0, 4)]
            p = [V["px"], V["py"], V["pz"]]
            # barycentric-type coordinates of p w.r.t. the tetrahedron
            lam = [p[0] / 4, p[1] / 4, p[2] / 4]
            lam.append(1 - lam[0] - lam[1] - lam[2])
            pts = [[F(c) for c in b] for b in base] + [p]
            mk = lambda: S.ConvexPolyhedron(H.arr(pts))  # noqa: E731
        else:
            base = [(0, 0), (4, 0), (0, 4)]
            p = [V["px"], V["py"]]
            lam = [p[0] / 4, p[1] / 4]
            lam.append(1 - lam[0] - lam[1])
            pts = [[F(x), F(y), F(0)] for x, y in base] + [[p[0], p[1], 0 * p[0]]]
            if cls_name == "ConvexPolygon":
                mk = lambda: S.ConvexPolygon(H.arr(pts))  # noqa: E731
            else:
                mk = lambda: S.ConvexSpheropolygon(H.arr(pts), H.num(F(1, 2)))  # noqa: E731
        inside = H.and_(*[l > F(1, 1000) for l in lam])
        outside = H.or_(*[l < -F(1, 1000) for l in lam])  # then p and the base are in convex position? only if p is beyond exactly one face region
        try:
            s = mk()
            accepted = True
        except ValueError:
            accepted = False
        if accepted:
            H.claim("accepted=>point_not_inside", H.not_(inside))
        else:
            # rejected: the point must be in the closed hull of the others, or one of the others in the hull of the rest + p
            neg = sum([1 for _ in []])
            H.claim("rejected=>not_clearly_convex_position", H.not_(H.and_(*[H.or_(l > F(1, 1000), l < -F(1, 1000)) for l in lam], _exactly_one_negative(H, lam))))

    return body


def _exactly_one_negative(H, lam):
    """p beyond exactly one facet of the simplex and inside the others: then all points are hull vertices."""
    cases = []
    for i in range(len(lam)):
        cases.append(H.and_(lam[i] < 0, *[lam[j] > 0 for j in range(len(lam)) if j != i]))
    return H.or_(*cases)


def order_body(cls_name, which):
    """All orders of a convex polygon in a tilted plane: accepted and stored counter-clockwise about the normal."""
    base = CYCLES[which]
    perms = list(itertools.permutations(range(len(base))))

    def body(H, V):
        import coxeter.shapes as S

        k = V["_perm"]
        return None

    return body


def make_order_body(cls_name, which, perm, quat, nsign=None):
    base = CYCLES[which]
    q = SH.QUATS[quat]
    R = O.rot_from_quat(*q) if q else None
    nvec = [F(nsign or 1) * x for x in (O.matvec(R, [F(0), F(0), F(1)]) if R is not None else [F(0), F(0), F(1)])]

    def body(H, V):
        import coxeter.shapes as S
        import numpy as rnp

        s, t = V["s"], [V["tx"], V["ty"], V["tz"]]
        P = []
        for i in perm:
            p = [F(base[i][0]), F(base[i][1]), F(0)]
            if R is not None:
                p = O.matvec(R, p)
            P.append([s * p[k] + t[k] for k in range(3)])
        inp = H.arr(P)
        keep = [list(r) for r in inp]
        nin = None if nsign is None else H.arr([H.num(3 * x) for x in nvec])
        nkeep = None if nin is None else list(nin)
        kw = {} if nsign is None else dict(normal=nin)
        if cls_name == "ConvexPolygon":
            shp = S.ConvexPolygon(inp, **kw)
            core = shp
        else:
            shp = S.ConvexSpheropolygon(inp, H.num(F(1, 2)), **kw)
            core = shp.polygon
        vs = [list(v) for v in core.vertices]
        nrm = list(core.normal)
        if nsign is not None:
            H.claim_all_eq("normal=requested", nrm, nvec)
            H.claim_all_eq("caller_normal_unchanged", list(nin), nkeep)
            H.claim("normal_stored_as_a_copy", not bool(rnp.shares_memory(core._normal, nin)))
        m = O.polygon_measures(vs, nrm)
        H.claim("ccw_about_normal", m["A"] > 0)
        # same cyclic sequence as the convex cycle (either direction is excluded by the sign above)
        idx = []
        for v in vs:
            for j, w in enumerate(keep):
                if all(bool(H.eqb(v[k], w[k])) for k in range(3)):
                    idx.append(perm[j])
                    break
        n = len(base)
        ok = len(idx) == n and any([idx[(r + j) % n] for j in range(n)] in ([(a + j) % n for j in range(n)] for a in [0]) or
                                   [idx[(r + j) % n] for j in range(n)] == [(-j) % n for j in range(n)] for r in range(n))
        H.claim("vertices_form_the_convex_cycle", ok)
        H.claim("stores_a_copy", not bool(rnp.shares_memory(core._vertices, inp)))
        H.claim_all_eq("caller_array_unchanged", [list(r) for r in inp], keep)

    return body


def explicit_normal_body(cname, reverse, nsign, quat, start):
    """A simple polygon listed counter-clockwise or clockwise, from any start vertex, with an explicit normal of either sign:
    accepted, the requested normal is stored, the vertices are stored as given, the signed area has the matching sign."""
    base = CYCLES[cname]
    n = len(base)
    order = [(start + (-j if reverse else j)) % n for j in range(n)]
    q = SH.QUATS[quat]
    R = O.rot_from_quat(*q) if q else None
    nvec = [F(nsign) * x for x in (O.matvec(R, [F(0), F(0), F(1)]) if R is not None else [F(0), F(0), F(1)])]

    def body(H, V):
        import coxeter.shapes as S

        s, t = V["s"], [V["tx"], V["ty"], V["tz"]]
        P = []
        for i in order:
            p = [F(base[i][0]), F(base[i][1]), F(0)]
            if R is not None:
                p = O.matvec(R, p)
            P.append([s * p[k] + t[k] for k in range(3)])
        inp = H.arr(P)
        keep = [list(r) for r in inp]
        nin = H.arr([H.num(2 * x) for x in nvec])  # any positive multiple of the unit normal is a normal vector
        nkeep = list(nin)
        try:
            poly = S.Polygon(inp, normal=nin)
        except ValueError as ex:
            H.fail("accepted", "ValueError: %s" % str(ex)[:100])
            return
        H.ok("accepted")
        H.claim_all_eq("normal=requested", list(poly.normal), nvec)
        H.claim_all_eq("caller_normal_unchanged", list(nin), nkeep)
        H.claim("normal_stored_as_a_copy", not bool(__import__("numpy").shares_memory(poly._normal, nin)))
        H.claim_all_eq("stored_vertices=input", poly.vertices, keep)
        want_positive = (not reverse) == (nsign > 0)
        H.claim("signed_area_sign", (poly.signed_area > 0) if want_positive else (poly.signed_area < 0))
        A2 = abs(sum(F(base[i][0]) * F(base[(i + 1) % n][1]) - F(base[(i + 1) % n][0]) * F(base[i][1]) for i in range(n))) / 2
        H.claim_eq("area", poly.area, A2 * s * s)

    return body


def radii_body(H, V):
    import coxeter.shapes as S

    v = V["v"]
    tri = [[0, 0, 0], [4, 0, 0], [0, 4, 0]]
    tet = [[0, 0, 0], [4, 0, 0], [0, 4, 0], [0, 0, 4]]
    cases = [("Circle", lambda: S.Circle(v), False), ("Sphere", lambda: S.Sphere(v), False), ("Ellipse.a", lambda: S.Ellipse(v, 1), False),
             ("Ellipse.b", lambda: S.Ellipse(1, v), False), ("Ellipsoid.a", lambda: S.Ellipsoid(v, 1, 2), False), ("Ellipsoid.b", lambda: S.Ellipsoid(1, v, 2), False),
             ("Ellipsoid.c", lambda: S.Ellipsoid(1, 2, v), False), ("ConvexSpheropolygon", lambda: S.ConvexSpheropolygon(H.arr(tri), v), True),
             ("ConvexSpheropolyhedron", lambda: S.ConvexSpheropolyhedron(H.arr(tet), v), True)]
    for name, mk, zero_ok in cases:
        try:
            mk()
            acc = True
        except ValueError:
            acc = False
        bad = (v < 0) if zero_ok else (v <= 0)
        H.claim("%s.accepted<=>valid_radius" % name, H.iff(acc, H.not_(bad)))


def degenerate_body(H, V):
    """Duplicates and fewer than three vertices (concrete structure, free placement)."""
    import coxeter.shapes as S

    t = [V["tx"], V["ty"], V["tz"]]

    def pt(x, y):
        return [t[0] + x, t[1] + y, t[2]]

    for name, pts in (("two_vertices", [pt(0, 0), pt(1, 0)]), ("duplicate_vertex", [pt(0, 0), pt(4, 0), pt(4, 3), pt(4, 0)]),
                      ("duplicate_first_last", [pt(0, 0), pt(4, 0), pt(4, 3), pt(0, 0)])):
        try:
            S.Polygon(H.arr(pts), test_simple=False)
            H.fail("Polygon.rejects_" + name, "accepted")
        except ValueError:
            H.ok("Polygon.rejects_" + name)


def polyhedron_alias_body(kind):
    """Constructors of the polyhedron classes never keep the caller's arrays (vertices or faces)."""
    def body(H, V):
        import coxeter.shapes as S
        import numpy as rnp

        base = SH.CONVEX["wedge"]
        facets = SH.convex_facets(base)
        P = SH.place(base, "r1", V["s"], [V["tx"], V["ty"], V["tz"]])
        inp = H.arr(P)
        keep = [list(r) for r in inp]
        if kind == "Polyhedron":
            faces = [rnp.array(f) for f in facets]
            fkeep = [list(f) for f in faces]
            s = S.Polyhedron(inp, faces, faces_are_convex=True)
            H.claim("faces_not_the_callers_objects", not any(a is b for a in s._faces for b in faces))
            H.claim("faces_share_no_memory", not any(isinstance(a, rnp.ndarray) and rnp.shares_memory(a, b) for a in s._faces for b in faces))
            H.claim("caller_faces_unchanged", [list(f) for f in faces] == fkeep)
            core = s
        elif kind == "ConvexPolyhedron":
            s = S.ConvexPolyhedron(inp)
            core = s
        else:
            s = S.ConvexSpheropolyhedron(inp, H.num(F(1, 2)))
            core = s.polyhedron
        H.claim("vertices_share_no_memory", not bool(rnp.shares_memory(core._vertices, inp)))
        H.claim_all_eq("caller_vertices_unchanged", [list(r) for r in inp], keep)
        H.claim_all_eq("stored_vertices=input", [list(r) for r in core.vertices], keep)

    return body


def obligations(tier, seed):
    from symx.loader import functions_encoded
    import coxeter.shapes as S
    from coxeter.extern.bentley_ottmann import poly_point_isect
    from coxeter.shapes import polygon, convex_polygon

    obs = []
    fn_s = functions_encoded([S.Polygon.__init__, polygon._is_simple, poly_point_isect.isect_polygon, poly_point_isect.isect_segments_impl])
    box = lambda V: [V["px"] >= -8, V["px"] <= 8, V["py"] >= -8, V["py"] <= 8]  # noqa: E731
    simple_cfgs = [("quad", 2, "id"), ("bowtie", 3, "id"), ("pentagram", 4, "id"), ("pent", 1, "r1"), ("arrow", 2, "id")]
    if tier == "thorough":
        simple_cfgs += [(c, i, q) for c in CYCLES for i in range(len(CYCLES[c])) for q in ("id", "r1")]
    for cname, fi, quat in sorted(set(simple_cfgs)):
        nm = "C15/Polygon.simple.%s.free%d.%s" % (cname, fi, quat)
        fs = dict(px=F(CYCLES[cname][fi][0]) + F(1, 7), py=F(CYCLES[cname][fi][1]) - F(1, 9))
        obs.append((nm, (lambda nm=nm, cname=cname, fi=fi, quat=quat, fs=fs: run_e2(
            nm, ["px", "py"], simple_body(cname, fi, quat), pre=box, first_sample=fs, functions=fn_s, max_paths=(40 if tier == "quick" else 300),
            budget_s=(200 if tier == "quick" else 1500), stubs=["kabsch contract stub"],
            bounds="cycle %s with vertex %d free in [-8,8]^2, plane %s; real Bentley-Ottmann sweep; margin %s on orientation products; path budget" % (cname, fi, quat, MARGIN)))))
    obs.append(("C15/Polygon.planarity", lambda: run_e2(
        "C15/Polygon.planarity", ["h", "s", "tx", "ty", "tz"], planarity_body, first_sample=dict(h=F(1, 3), s=F(1), tx=F(1, 5), ty=F(2, 5), tz=F(-3, 5)), positive=["s"],
        pre=lambda V: [V["s"] >= F(1, 10**6), V["s"] <= 1000] + [c for k in ("tx", "ty", "tz") for c in (V[k] >= -5, V[k] <= 5)],
        functions=functions_encoded([S.Polygon.__init__]), max_paths=(24 if tier == "quick" else 120),
        bounds="tilted quadrilateral of size 5 s with one vertex displaced by h s along the normal: h free, scale s in [1e-6, 1e3], offset within [-25 s, 25 s]^3 (about nine diameters)")))
    for cls in ("ConvexPolygon", "ConvexSpheropolygon", "ConvexPolyhedron"):
        names = ["px", "py"] + (["pz"] if cls == "ConvexPolyhedron" else [])
        nm = "C15/%s.extra_point" % cls
        obs.append((nm, (lambda nm=nm, cls=cls, names=names: run_e2(
            nm, names, convex_point_body(cls), first_sample={n: F(1) for n in names}, pre=lambda V: [c for n in names for c in (V[n] >= -6, V[n] <= 9)],
            functions=functions_encoded([getattr(S, cls).__init__, convex_polygon._is_convex]), max_paths=(30 if tier == "quick" else 200),
            stubs=["ConvexHull -> exact hull"], bounds="%s of a concrete simplex plus one free point in [-6,9]^d" % cls))))
    first = dict(s=F(3, 2), tx=F(7, 3), ty=F(-5, 2), tz=F(11, 4))
    quad_perms = list(itertools.permutations(range(4)))
    sel = quad_perms if tier == "thorough" else quad_perms[::3]
    for pi, perm in enumerate(sel):
        for cls in (("ConvexPolygon", "ConvexSpheropolygon") if (tier == "thorough" or pi % 2 == 0) else ("ConvexPolygon",)):
            quat = "r1" if cls == "ConvexPolygon" else "rz90"
            nm = "C15/%s.order.quad.%s" % (cls, "".join(map(str, perm)))
            obs.append((nm, (lambda nm=nm, cls=cls, perm=perm, quat=quat: run_e2(
                nm, ["s", "tx", "ty", "tz"], make_order_body(cls, "quad", perm, quat), positive=["s"], first_sample=first, max_paths=2,
                functions=functions_encoded([getattr(S, cls).__init__, S.ConvexPolygon._reorder_verts]), stubs=["ConvexHull / kabsch contract stubs"],
                bounds="%s from the convex quadrilateral in input order %s, free scale/translation, plane %s" % (cls, perm, quat)))))
    # explicit normals of either sign (the default normal comes from the first three vertices; an explicit one need not agree with it)
    nsel = [p for p in quad_perms if p[0] == 0] if tier == "quick" else quad_perms
    for perm in nsel:
        for cls in ("ConvexPolygon", "ConvexSpheropolygon"):
            for nsign in (1, -1):
                quat = "r1" if cls == "ConvexPolygon" else "r2"
                nm = "C15/%s.order_explicit_normal.quad.%s.%s" % (cls, "".join(map(str, perm)), "plus" if nsign > 0 else "minus")
                obs.append((nm, (lambda nm=nm, cls=cls, perm=perm, quat=quat, nsign=nsign: run_e2(
                    nm, ["s", "tx", "ty", "tz"], make_order_body(cls, "quad", perm, quat, nsign), positive=["s"], first_sample=first, max_paths=2,
                    functions=functions_encoded([getattr(S, cls).__init__, S.Polygon.__init__, S.ConvexPolygon._reorder_verts]), stubs=["ConvexHull / kabsch contract stubs"],
                    bounds="%s from the convex quadrilateral in input order %s with the explicit normal %s n, free scale/translation, plane %s" % (cls, perm, "+" if nsign > 0 else "-", quat)))))
    ecfg = [(c, rev, ns, "r1", st) for c in ("L", "arrow") for rev in (False, True) for ns in (1, -1) for st in ((0, 3) if c == "L" else (0, 2))]
    if tier == "thorough":
        ecfg = [(c, rev, ns, q, st) for c in ("L", "arrow", "quad", "pent") for rev in (False, True) for ns in (1, -1) for q in ("id", "r1", "r3") for st in range(len(CYCLES[c]))]
    for cname, rev, ns, quat, st in ecfg:
        nm = "C15/Polygon.explicit_normal.%s.%s.start%d.%s.%s" % (cname, "cw" if rev else "ccw", st, "plus" if ns > 0 else "minus", quat)
        obs.append((nm, (lambda nm=nm, cname=cname, rev=rev, ns=ns, quat=quat, st=st: run_e2(
            nm, ["s", "tx", "ty", "tz"], explicit_normal_body(cname, rev, ns, quat, st), positive=["s"], first_sample=first, max_paths=2,
            pre=lambda V: [V["s"] >= F(1, 4), V["s"] <= 100] + [c for k in ("tx", "ty", "tz") for c in (V[k] >= -100, V[k] <= 100)],
            functions=functions_encoded([S.Polygon.__init__, polygon._is_simple]), stubs=["kabsch contract stub"],
            bounds="simple polygon %s listed %s from vertex %d with explicit normal %s n, plane %s, scale in [1/4, 100], translation in [-100, 100]^3 (the vendored sweep uses absolute 1e-10 bands); real sweep" % (cname, "clockwise" if rev else "counter-clockwise", st, "+" if ns > 0 else "-", quat)))))
    for kind in ("Polyhedron", "ConvexPolyhedron", "ConvexSpheropolyhedron"):
        nm = "C15/%s.aliasing" % kind
        obs.append((nm, (lambda nm=nm, kind=kind: run_e2(nm, ["s", "tx", "ty", "tz"], polyhedron_alias_body(kind), positive=["s"], first_sample=first, max_paths=2,
                                                         functions=functions_encoded([getattr(S, kind).__init__]), stubs=["ConvexHull / kabsch contract stubs"],
                                                         bounds="%s built from arrays (wedge, free placement): stored arrays vs the caller's" % kind))))
    obs.append(("C15/radii", lambda: run_e2("C15/radii", ["v"], radii_body, first_sample=dict(v=F(1, 2)), functions=functions_encoded([S.Circle.__init__, S.Ellipsoid.__init__]),
                                             bounds="radius / semi-axis / rounding radius v: one free real of either sign, nine constructors")))
    obs.append(("C15/degenerate", lambda: run_e2("C15/degenerate", ["tx", "ty", "tz"], degenerate_body, first_sample=dict(tx=F(1), ty=F(2), tz=F(3)),
                                                  functions=functions_encoded([S.Polygon.__init__]), bounds="two vertices, duplicate vertices; free translation")))
    return obs
