"""C01 - convex polyhedron volume, area, centroid, face centroids and inertia tensor are exact.

The real ``ConvexPolyhedron`` constructor (through the exact hull stub, ``_combine_simplices``,
``_sort_simplices`` with its arctan2/lexsort pre-sort, ``sort_faces``) and the measure getters are
executed on base solids placed by a free scale s > 0, a free translation t in R^3 and a rational
rotation, with the input vertices in several orders, and (thorough) on a tetrahedron with all 12
coordinates free.  Oracle: signed-tetrahedron sums over an independently computed facet list.
"""
from fractions import Fraction as F

from . import common, oracles as O, shapes as SH
from .common import run_e2

LEVEL = "model_checking"
TECHNIQUE = "symbolic execution of the real ConvexPolyhedron constructor and getters with free placement / free coordinates (symx + z3 QF_NRA), signed-tetrahedron oracle"
ASSUMPTIONS = [
    "A1 reals not floats (the 2e-15 coplanarity tolerance of _combine_simplices acts as exact equality)",
    "scipy.spatial.ConvexHull replaced by an exact hull with several simplex orders / in-simplex vertex orders (qhull's unordered output)",
    "rowan.mapping.kabsch replaced by its contract",
]


def _perm(n, k):
    import random

    r = random.Random(1000 + k)
    p = list(range(n))
    if k == 0:
        return p
    if k == 1:
        return p[::-1]
    r.shuffle(p)
    return p


def make_body(shape, quat_key, perm_k, free_verts=None):
    base = SH.CONVEX[shape]
    facets = SH.convex_facets(base)
    n = len(base)
    perm = _perm(n, perm_k)  # input position i holds base vertex perm[i]
    inv = {b: i for i, b in enumerate(perm)}

    def body(H, V):
        from coxeter.shapes import ConvexPolyhedron

        if free_verts:
            P = [[V["v%d%d" % (i, k)] for k in range(3)] for i in range(n)]
        else:
            P = SH.place(base, quat_key, V["s"], [V["tx"], V["ty"], V["tz"]])
        inp = [P[perm[i]] for i in range(n)]
        poly = ConvexPolyhedron(H.arr(inp))
        ofac = [[inv[b] for b in f] for f in facets]  # oracle facets in input indices
        tris = [(inp[a], inp[b], inp[c]) for f in ofac for a, b, c in SH.fan(f)]
        Vol, m1, m2 = O.polyhedron_moments(tris)
        H.claim_eq("volume", poly.volume, Vol)
        cen = [m1[k] / Vol for k in range(3)]
        H.claim_all_eq("centroid", poly.centroid, cen)
        H.claim_all_eq("inertia_tensor", poly.inertia_tensor, O.inertia_from_moments(m2))
        # faces: match by vertex set
        got = [frozenset(int(i) for i in f) for f in poly.faces]
        want = {frozenset(f): f for f in ofac}
        if set(got) != set(want):
            H.fail("faces=facets", "faces %r vs facets %r" % (sorted(map(sorted, got)), sorted(map(sorted, want))))
            return
        H.ok("faces=facets")
        areas = poly.get_face_area()
        fcs = poly.face_centroids
        total = 0
        for fi, fs in enumerate(got):
            f = want[fs]
            vs = [inp[i] for i in f]
            N = O.cross(O.sub(vs[1], vs[0]), O.sub(vs[2], vs[0]))
            nrm = H.sqrt(O.dot(N, N))
            nu = [c / nrm for c in N]
            m = O.polygon_measures(vs, nu)
            H.claim_eq("face_area[%s]" % sorted(fs), areas[fi], m["A"])
            H.claim_eq("get_face_area(i)[%s]" % sorted(fs), poly.get_face_area(fi), m["A"])
            H.claim_all_eq("face_centroid[%s]" % sorted(fs), fcs[fi], m["c"])
            total = total + m["A"]
        H.claim_eq("surface_area", poly.surface_area, total)
        H.claim_eq("get_face_area(total)", poly.get_face_area("total"), total)
        # list form of get_face_area and the edge getters
        two = poly.get_face_area([0, len(got) - 1])
        H.claim_eq("get_face_area([0,last])[0]", two[0], areas[0])
        H.claim_eq("get_face_area([0,last])[1]", two[1], areas[len(got) - 1])
        E = [tuple(int(x) for x in e) for e in poly.edges]
        ev, el = poly.edge_vectors, poly.edge_lengths
        H.claim("edge_count", len(E) == int(poly.num_edges) and len(ev) == len(E))
        for k_, (a_, b_) in enumerate(E):
            d_ = O.sub(inp[b_], inp[a_])
            H.claim_all_eq("edge_vector[%d,%d]" % (a_, b_), ev[k_], d_)
            H.claim_eq("edge_length^2[%d,%d]" % (a_, b_), el[k_] * el[k_], O.dot(d_, d_))
        H.claim("num_vertices/num_faces", poly.num_vertices == n and poly.num_faces == len(ofac))

    return body


def _fns():
    from coxeter.shapes import ConvexPolyhedron, Polyhedron
    from coxeter.shapes.utils import translate_inertia_tensor
    from symx.loader import functions_encoded

    C = ConvexPolyhedron
    return functions_encoded([C.__init__, C._consume_hull, C._combine_simplices, C._sort_simplices, C.sort_faces, C._find_equations,
                              C._find_simplex_equations, C._centroid_from_triangulated_surface, C._calculate_signed_volume, C.get_face_area,
                              C._find_face_centroids, C._find_triangle_array_area, C._compute_inertia_tensor, C.inertia_tensor.fget,
                              Polyhedron._find_neighbors, Polyhedron._get_face_intersections, translate_inertia_tensor])


def _ob(shape, quat_key, perm_k, hull_variant, tier):
    name = "C01/%s.%s.perm%d.hull%d" % (shape, quat_key, perm_k, hull_variant)
    names = ["s", "tx", "ty", "tz"]

    def setup(ctx):
        ctx.hull_variant = hull_variant
        ctx.kabsch_t = None if hull_variant % 2 == 0 else (F(3, 5), F(4, 5))

    first = dict(s=F(3, 2), tx=F(7, 3), ty=F(-5, 2), tz=F(11, 4))
    return (name, lambda: run_e2(name, names, make_body(shape, quat_key, perm_k), positive=["s"], setup=setup, functions=_fns(),
                                 first_sample=first, max_paths=(3 if tier == "quick" else 12), budget_s=(120 if tier == "quick" else 600),
                                 stubs=["ConvexHull(3-D) -> exact hull, output variant %d" % hull_variant, "rowan.mapping.kabsch -> contract"],
                                 bounds="base solid %s (%d vertices), placement: free scale s>0, free translation (3 reals), rotation %s, input order perm%d; "
                                        "path budget %d (sorting decisions depend on the placement)" % (shape, len(SH.CONVEX[shape]), quat_key, perm_k, 3 if tier == "quick" else 12)))


def free_tetra_body(H, V):
    """Measure functions from an arbitrary state satisfying the representation invariant
    (outward counter-clockwise simplices = faces, exact volume): the constructor is C07's subject."""
    from coxeter.shapes import ConvexPolyhedron
    import numpy as rnp

    P = [[V["v%d%d" % (i, k)] for k in range(3)] for i in range(4)]
    faces = [[0, 2, 1], [0, 1, 3], [0, 3, 2], [1, 2, 3]]
    d = O.det3(O.sub(P[1], P[0]), O.sub(P[2], P[0]), O.sub(P[3], P[0]))
    p = object.__new__(ConvexPolyhedron)
    p._vertices = H.arr(P)
    p._ndim = 3
    p._faces_are_convex = True
    p._simplices = rnp.array(faces)
    p._faces = [rnp.array(f) for f in faces]
    p._coplanar_simplices = [rnp.array([i]) for i in range(4)]
    p._volume = d / 6
    p._find_simplex_equations()
    p._equations = p._simplex_equations
    p._centroid_from_triangulated_surface()
    p._calculate_surface_area()
    tris = [(P[a], P[b], P[c]) for a, b, c in faces]
    Vol, m1, m2 = O.polyhedron_moments(tris)
    H.claim_eq("volume", p.volume, Vol)
    H.claim_eq("signed_volume", p._calculate_signed_volume(), Vol)
    H.claim_all_eq("centroid", p.centroid, [m1[k] / Vol for k in range(3)])
    H.claim_all_eq("inertia_tensor", p.inertia_tensor, O.inertia_from_moments(m2))
    total = 0
    areas = p.get_face_area()
    fcs = p.face_centroids
    for fi, f in enumerate(faces):
        vs = [P[i] for i in f]
        N = O.cross(O.sub(vs[1], vs[0]), O.sub(vs[2], vs[0]))
        A = H.sqrt(O.dot(N, N)) / 2
        H.claim_eq("face_area[%d]" % fi, areas[fi], A)
        H.claim_all_eq("face_centroid[%d]" % fi, fcs[fi], [(vs[0][k] + vs[1][k] + vs[2][k]) / 3 for k in range(3)])
        total = total + A
    H.claim_eq("surface_area", p.surface_area, total)
    for fi, f in enumerate(faces):
        # plane equations: unit outward normal through the face
        n = p.equations[fi]
        H.claim_eq("unit_normal[%d]" % fi, n[0] * n[0] + n[1] * n[1] + n[2] * n[2], 1)
        H.claim_eq("plane_contains_face[%d]" % fi, n[0] * P[f[0]][0] + n[1] * P[f[0]][1] + n[2] * P[f[0]][2] + n[3], 0)


def _ob_free_tetra(tier):
    name = "C01/free_tetra.state"
    names = ["v%d%d" % (i, k) for i in range(4) for k in range(3)]

    def pre(V):
        P = [[V["v%d%d" % (i, k)] for k in range(3)] for i in range(4)]
        d = O.det3(O.sub(P[1], P[0]), O.sub(P[2], P[0]), O.sub(P[3], P[0]))
        return [d > 0]

    base = SH.CONVEX["tetra"]
    first = {}
    for i in range(4):
        for k in range(3):
            first["v%d%d" % (i, k)] = F(base[i][k]) + F(i + 2 * k, 7)
    return (name, lambda: run_e2(name, names, free_tetra_body, pre=pre, functions=_fns(), first_sample=first, max_paths=(4 if tier == "quick" else 16),
                                 budget_s=(200 if tier == "quick" else 1500),
                                 bounds="tetrahedron with all 12 coordinates free (positive orientation; the other class is a relabelling), state built directly "
                                        "from the representation invariant, measure functions only"))


def _tabulated_ob(famname, tier):
    """Finite domain: every tabulated solid of a family (index enumerated by z3), built by the real constructor from a
    permuted, rotated and translated copy of its vertices and compared with an independent float64 reference
    (harness/floathull.py: brute-force supporting planes + fan integrals).  Extends the claims to 4-120 vertices and faces
    of degree up to 10; tolerance 1e-9 relative."""
    def run():
        import numpy as rnp
        import coxeter.families as Fm
        from coxeter.shapes import ConvexPolyhedron
        from . import floathull

        fam = Fm.DOI_SHAPE_REPOSITORIES["10.1126/science.1220869"][0] if famname == "science1220869" else getattr(Fm, famname)
        names = list(fam.names) if hasattr(fam, "names") else [n for n, _ in fam]
        # rational rotation (quaternion (1,2,2,4)/5) and an offset of a few diameters
        R = rnp.array(O.rot_from_quat(F(1, 5), F(2, 5), F(2, 5), F(4, 5)), dtype=float)

        def fn(i):
            base = rnp.asarray(fam.get_shape(names[i]).vertices, dtype=float)
            rng = rnp.random.default_rng(1000 + i)
            V = base[rng.permutation(len(base))] @ R.T + rnp.array([2.5, -1.75, 3.25])
            ref = floathull.measures(V)
            p = ConvexPolyhedron(V.copy())
            tol = 1e-9

            def close(a, b, sc=1.0):
                return bool(rnp.all(rnp.abs(rnp.asarray(a, dtype=float) - rnp.asarray(b, dtype=float)) <= tol * max(sc, float(rnp.abs(b).max()))))

            bad = []
            if not close(p.volume, ref["volume"]):
                bad.append("volume %r vs %r" % (p.volume, ref["volume"]))
            if not close(p.surface_area, ref["surface_area"]):
                bad.append("surface_area %r vs %r" % (p.surface_area, ref["surface_area"]))
            if not close(p.centroid, ref["centroid"]):
                bad.append("centroid %r vs %r" % (p.centroid, ref["centroid"]))
            if not close(p.inertia_tensor, ref["inertia"]):
                bad.append("inertia tensor differs by %g" % float(rnp.abs(p.inertia_tensor - ref["inertia"]).max()))
            if len(p.faces) != ref["nfacets"]:
                bad.append("%d faces vs %d facets" % (len(p.faces), ref["nfacets"]))
            else:
                # the stored vertices are the input vertices in input order: faces are compared by their vertex sets
                if not close(p.vertices, V):
                    bad.append("stored vertices differ from the input")
                want = {tuple(ix): (a, c) for ix, a, c in ref["faces"]}
                areas, fcs = p.get_face_area(), p.face_centroids
                for fi, f in enumerate(p.faces):
                    w = want.get(tuple(sorted(int(x) for x in f)))
                    if w is None:
                        bad.append("face %d is not a facet of the hull" % fi)
                        break
                    if not close(areas[fi], w[0]) or not close(fcs[fi], w[1]):
                        bad.append("face %d: area %r vs %r, centroid %r vs %r" % (fi, areas[fi], w[0], fcs[fi], w[1]))
                        break
            return (not bad), ("%s: %s" % (names[i], "; ".join(bad[:3])) if bad else "")

        return common.run_z3_enum("C01/tabulated." + famname, 0, len(names), fn, describe=lambda i: names[i],
                                  bounds="all %d entries of %s (4-120 vertices, faces of degree 3-10), vertices permuted, rotated and moved off the origin; real constructor and getters "
                                         "on float64 vs an independent brute-force reference, tolerance 1e-9" % (len(names), famname),
                                  functions=["coxeter.shapes.ConvexPolyhedron.__init__ / volume / surface_area / centroid / inertia_tensor / get_face_area / face_centroids"])

    return ("C01/tabulated." + famname, run)


def obligations(tier, seed):
    quick = [
        ("tetra", "r1", 0, 0), ("cube", "id", 2, 1), ("box", "r2", 1, 2), ("pyramid", "r1", 2, 3), ("prism3", "id", 1, 0),
        ("octa", "rz90", 0, 1), ("frustum", "id", 0, 0), ("frustum", "r3", 2, 5), ("wedge", "r2", 0, 2), ("skew", "r1", 2, 0),
        ("skew", "id", 1, 4), ("cubocta", "id", 0, 0),
    ]
    cfgs = list(quick)
    if tier == "thorough":
        for sh in SH.CONVEX:
            for q in SH.QUATS:
                for pk in (0, 2, 3):
                    for hv in (0, 1 + (pk + len(sh)) % 9):
                        cfgs.append((sh, q, pk, hv))
        cfgs = sorted(set(cfgs))
    obs = [_ob(*c, tier) for c in cfgs]
    obs.append(_ob_free_tetra(tier))
    for famname in ("PlatonicFamily", "ArchimedeanFamily", "CatalanFamily", "PrismAntiprismFamily", "PyramidDipyramidFamily", "JohnsonFamily", "science1220869"):
        obs.append(_tabulated_ob(famname, tier))
    return obs
