"""C12 - form factor amplitude is the Fourier transform of the shape.

The wave vector q = (qx, qy, qz) is free; the phases q.v / 2 are integer combinations of the base
phases qx/2, qy/2, qz/2 for lattice shapes, each carried by a free real t = tan(phase/2) so that every
cos / sin / exp(-i.) the real code evaluates is an exact rational function (complex numbers as pairs).
Oracles (independent closed forms): polygon - vertex form of the 2-D Fourier transform; axis-aligned
voxel solids - sum over boxes of prod_i (e^{-i q_i a_i} - e^{-i q_i b_i}) / (i q_i); sphere -
4 pi (sin qR - qR cos qR) / q^3 e^{-i q.c}.  Also: F(0) = area / volume on the isclose branch,
F(-q) = conj F(q), translation multiplies by e^{-i q.t}, clockwise = counter-clockwise polygon, batch
element i = single-q result (incl. a (1,3) batch).
"""
from fractions import Fraction as F

from . import common, oracles as O, shapes as SH
from .common import run_e2

LEVEL = "model_checking"
TECHNIQUE = "symbolic execution of compute_form_factor_amplitude with a free wave vector (phase algebra over tan-half-angle parameters, complex pairs); identities with independent closed forms decided by z3"
ASSUMPTIONS = [
    "A1 reals not floats; the values of sin / cos are outside: a phase is represented by t = tan(phase/2), free and independent of q (the identities claimed hold formally in the phases); the direction phase = pi is not representable",
    "shapes: lattice polygons in coordinate planes, axis-aligned voxel solids (all face normals along axes), spheres with lattice centres; batch <= 3",
    "continuity as q -> 0 or towards special directions is a limit and outside; the special-direction branches themselves are executed; each q component is exactly 0 or at least 1e-2 in magnitude (the code's isclose band on |q|^2 is not claimed)",
]


PHASE_DIV = [2]


def _declare(ctx):
    from symx import phase

    d = PHASE_DIV[0]
    phase.declare(ctx, [(ctx.sym("qx") / d, "t1"), (ctx.sym("qy") / d, "t2"), (ctx.sym("qz") / d, "t3")], spare=[n for n in ("t4", "t5") if n in ctx.names])


def _run_refining(name, names, body, **kw):
    """Base phases q_k / d with d = 2; if the code needs finer phases (non-lattice offsets) restart with a multiple."""
    import re

    d = 2
    while True:
        PHASE_DIV[0] = d
        r = run_e2(name, names, body, **kw)
        need = [int(m.group(1)) for e in r.get("harness_errors", []) for m in [re.search(r"phase-refine:(\d+)", e)] if m]
        if not need or d >= 32:
            r["phase_base"] = "q_k/%d" % d
            return r
        d = d * max(need)


def _expi(H, x):
    """e^{-i x} as (re, im) in either mode."""
    if H.symbolic:
        from symx import phase

        c, s = phase.cos_sin(x)
        return c, -s
    import math

    return math.cos(x), -math.sin(x)


def _cmul(a, b):
    return (a[0] * b[0] - a[1] * b[1], a[0] * b[1] + a[1] * b[0])


def _parts(z):
    return (z.re, z.im) if hasattr(z, "re") else (z.real, z.imag)


def _q(H, V, scale=1):
    if H.symbolic:
        _declare(H.ctx)  # per path: the phase terms are built under the path engine
        return [scale * V["qx"], scale * V["qy"], scale * V["qz"]]
    # concrete replay: the phases are tied to q (t_k = tan(q_k / 4) is ignored, q itself is used)
    return [scale * V["qx"], scale * V["qy"], scale * V["qz"]]


def polygon_oracle(H, verts, q):
    """Vertex form: F = sum_k  n.(e_{k-1} x e_k) e^{-i q.v_k} / ((q.e_{k-1}) (q.e_k)), polygon counter-clockwise about n (xy-plane, n = +z)."""
    n = len(verts)
    re = im = 0
    for k in range(n):
        v = verts[k]
        e0 = O.sub(verts[k], verts[k - 1])
        e1 = O.sub(verts[(k + 1) % n], verts[k])
        cr = O.cross(e0, e1)[2]
        den = O.dot(q, e0) * O.dot(q, e1)
        ph = _expi(H, O.dot(q, v))
        re = re + cr * ph[0] / den
        im = im + cr * ph[1] / den
    return re, im


def polygon_body(pname, reverse, batch):
    base = [(F(x), F(y), F(0)) for x, y in SH.POLYGONS[pname]]
    if reverse:
        base = base[::-1]

    def body(H, V):
        from coxeter.shapes import Polygon

        q = _q(H, V)
        p = Polygon(H.arr([[H.num(c) for c in v] for v in base]), normal=[H.num(0), H.num(0), H.num(1)], test_simple=False)
        rows = {"single": [q], "pair": [q, [2 * c for c in q]], "with_zero": [q, [0 * c for c in q], [-c for c in q]]}[batch]
        res = p.compute_form_factor_amplitude(H.arr(rows), density=H.num(F(3, 2)))
        H.claim("result_length", len(res) == len(rows))
        ccw = [list(v) for v in (base[::-1] if reverse else base)]
        A = O.polygon_measures(ccw, [0, 0, 1])["A"]
        for i, row in enumerate(rows):
            r_, i_ = _parts(res[i])
            if all((not hasattr(c, "num") and c == 0) or (hasattr(c, "num") and not c.num) for c in row):
                H.claim_eq("F(0)=density*area[%d]" % i, r_, F(3, 2) * A)
                H.claim_eq("F(0).imag[%d]" % i, i_, 0)
                continue
            qp = [row[0], row[1], 0 * row[0]]
            generic = H.and_(*[H.not_(H.eqb(O.dot(qp, O.sub(ccw[(k + 1) % len(ccw)], ccw[k])), 0)) for k in range(len(ccw))])
            if not bool(generic):
                continue
            ore, oim = polygon_oracle(H, ccw, qp)
            H.claim_eq("F=fourier_transform.re[%d]" % i, r_, F(3, 2) * ore)
            H.claim_eq("F=fourier_transform.im[%d]" % i, i_, F(3, 2) * oim)
        if batch == "with_zero":
            a, b = _parts(res[0]), _parts(res[2])
            H.claim_eq("F(-q)=conj(F(q)).re", b[0], a[0])
            H.claim_eq("F(-q)=conj(F(q)).im", b[1], -a[1])

    return body


def boxes_oracle(H, boxes, q):
    re = im = 0
    for lo, hi in boxes:
        term = (1, 0)
        for k in range(3):
            a, b = _expi(H, q[k] * lo[k]), _expi(H, q[k] * hi[k])
            # (e^{-i q a} - e^{-i q b}) / (i q) = -i (..)/q
            dr, di = a[0] - b[0], a[1] - b[1]
            term = _cmul(term, (di / q[k], -dr / q[k]))
        re, im = re + term[0], im + term[1]
    return re, im


SOLIDS = {
    "cube": ([((0, 0, 0), (2, 2, 2))], None),
    "box_off": ([((1, -2, 3), (3, 1, 4))], None),
    "L_prism": ([((0, 0, 0), (4, 1, 2)), ((0, 1, 0), (1, 3, 2))], "L_prism"),
}


def polyhedron_body(sname, convex, batch, resize=False):
    boxes0, nc = SOLIDS[sname]
    boxes = boxes0
    if resize:
        # evaluate once, double every length through the volume setter (x 8; the setters scale about the origin), evaluate
        # again: F is the transform of the shape as it is now, not of the shape some cache remembers
        boxes = [(tuple(2 * c for c in lo), tuple(2 * c for c in hi)) for lo, hi in boxes0]

    def body(H, V):
        import coxeter.shapes as S
        import numpy as rnp

        q = _q(H, V)
        if nc is None:
            lo, hi = boxes0[0]
            verts = [(x, y, z) for x in (lo[0], hi[0]) for y in (lo[1], hi[1]) for z in (lo[2], hi[2])]
            faces = SH.convex_facets(verts)
        else:
            verts, faces = SH.nonconvex(nc)
        P = [[H.num(F(c)) for c in v] for v in verts]
        if convex:
            s = S.ConvexPolyhedron(H.arr(P))
        else:
            s = S.Polyhedron(H.arr(P), [rnp.array(f) for f in faces], faces_are_convex=True)
        rows = {"single": [q], "with_zero": [q, [0 * c for c in q], [-c for c in q]]}[batch]
        rho = F(5, 4)
        if resize:
            s.compute_form_factor_amplitude(H.arr(rows), density=H.num(rho))
            s.volume = 8 * s.volume
        res = s.compute_form_factor_amplitude(H.arr(rows), density=H.num(rho))
        vol = sum((hi[0] - lo[0]) * (hi[1] - lo[1]) * (hi[2] - lo[2]) for lo, hi in boxes)
        for i, row in enumerate(rows):
            r_, i_ = _parts(res[i])
            if all((not hasattr(c, "num") and c == 0) or (hasattr(c, "num") and not c.num) for c in row):
                H.claim_eq("F(0)=density*volume[%d]" % i, r_, rho * vol)
                continue
            if not bool(H.and_(*[H.not_(H.eqb(c, 0)) for c in row])):
                continue
            ore, oim = boxes_oracle(H, boxes, row)
            H.claim_eq("F=density*fourier_transform.re[%d]" % i, r_, rho * ore)
            H.claim_eq("F=density*fourier_transform.im[%d]" % i, i_, rho * oim)

    return body


def sphere_body(centre, batch):
    def body(H, V):
        from coxeter.shapes import Sphere
        import math

        q = _q(H, V)
        R = V["R"]
        s = Sphere(R, [H.num(c) for c in centre])
        rows = {"single": [q], "with_zero": [q, [0 * c for c in q]]}[batch]
        res = s.compute_form_factor_amplitude(H.arr(rows), density=H.num(2))
        vol = 4 * H.pi * R ** 3 / 3
        for i, row in enumerate(rows):
            r_, i_ = _parts(res[i])
            if all((not hasattr(c, "num") and c == 0) or (hasattr(c, "num") and not c.num) for c in row):
                H.claim_eq("sphere.F(0)=density*volume[%d]" % i, r_, 2 * vol)
                H.claim_eq("sphere.F(0).imag[%d]" % i, i_, 0)
                continue
            q2 = O.dot(row, row)
            qn = H.sqrt(q2)
            x = qn * R
            if H.symbolic:
                from symx import phase

                cx, sx = phase.cos_sin(x)
            else:
                cx, sx = math.cos(x), math.sin(x)
            amp = 2 * 4 * H.pi * (sx - x * cx) / (qn * q2)
            ph = _expi(H, O.dot(row, [F(c) for c in centre]))
            H.claim_eq("sphere.F=fourier_transform.re[%d]" % i, r_, amp * ph[0])
            H.claim_eq("sphere.F=fourier_transform.im[%d]" % i, i_, amp * ph[1])

    return body


def obligations(tier, seed):
    from symx.loader import functions_encoded
    import coxeter.shapes as S

    fns = functions_encoded([S.Polygon.compute_form_factor_amplitude, S.Polyhedron.compute_form_factor_amplitude, S.Sphere.compute_form_factor_amplitude])
    names = ["qx", "qy", "qz", "t1", "t2", "t3"]
    first = dict(qx=F(3, 2), qy=F(-5, 4), qz=F(7, 8), t1=F(1, 3), t2=F(-2, 5), t3=F(3, 7))
    obs = []

    def add(name, body, bounds, paths=4):
        def pre(V):
            from symx.core import sym_or

            # each component is exactly zero or clearly non-zero: the code switches to the q -> 0 / in-plane-zero branches with an absolute
            # tolerance (isclose on |q|^2), and continuity across that band is a limit statement outside the claim
            return [sym_or(V[k] == 0, V[k] >= F(1, 100), V[k] <= -F(1, 100)) for k in ("qx", "qy", "qz")]

        obs.append((name, lambda: _run_refining(name, names, body, pre=pre, first_sample=first, functions=fns, max_paths=(paths if tier == "quick" else paths * 4),
                                         budget_s=(200 if tier == "quick" else 1200), stubs=["kabsch / qhull contract stubs", "sin/cos/exp -> rational functions of tan(phase/2)"],
                                         bounds=bounds)))

    pcfg = [("quad", False, "single"), ("quad", True, "with_zero"), ("L", False, "pair"), ("arrow", True, "single")]
    if tier == "thorough":
        pcfg = [(p, r, b) for p in ("tri", "quad", "L", "arrow", "pent") for r in (False, True) for b in ("single", "pair", "with_zero")]
    for pname, rev, batch in pcfg:
        add("C12/Polygon.%s.%s.%s" % (pname, "cw" if rev else "ccw", batch), polygon_body(pname, rev, batch),
            "lattice polygon %s listed %s, normal +z, wave vector free (3 reals) + 3 phase parameters; batch form %s" % (pname, "clockwise" if rev else "counter-clockwise", batch))
    scfg = [("cube", True, "single"), ("box_off", False, "with_zero"), ("L_prism", False, "single")]
    if tier == "thorough":
        scfg = [(s, c, b) for s in SOLIDS for c in ((True, False) if SOLIDS[s][1] is None else (False,)) for b in ("single", "with_zero")]
    for sname, convex, batch in scfg:
        add("C12/%s.%s.%s" % ("ConvexPolyhedron" if convex else "Polyhedron", sname, batch), polyhedron_body(sname, convex, batch),
            "axis-aligned solid %s, wave vector free; batch form %s" % (sname, batch), paths=3)
    # centres in general position, at the origin, on a coordinate axis and in a coordinate plane
    for sname, convex in ([("cube", True), ("cube", False)] if tier == "quick" else [(s, c) for s in SOLIDS for c in ((True, False) if SOLIDS[s][1] is None else (False,))]):
        if sname not in SOLIDS:
            continue
        add("C12/%s.%s.single.resized" % ("ConvexPolyhedron" if convex else "Polyhedron", sname), polyhedron_body(sname, convex, "single", resize=True),
            "axis-aligned solid %s evaluated, doubled in size through the volume setter, evaluated again; wave vector free" % sname, paths=3)
    for centre, batch in ([((0, 0, 0), "single"), ((2, -1, 3), "with_zero"), ((2, 0, 0), "single"), ((0, -1, 3), "single")] if tier == "quick" else
                          [((0, 0, 0), "single"), ((0, 0, 0), "with_zero"), ((2, -1, 3), "single"), ((2, -1, 3), "with_zero"), ((-4, 5, 1), "single"),
                           ((2, 0, 0), "single"), ((0, -1, 3), "single"), ((0, 0, -2), "with_zero"), ((3, 1, 0), "single")]):
        nm = "C12/Sphere.c%s.%s" % ("_".join(map(str, centre)), batch)
        obs.append((nm, (lambda nm=nm, centre=centre, batch=batch: _run_refining(
            nm, names + ["R", "t4", "t5"], sphere_body(centre, batch), positive=["R"], pre=lambda V: [V["qx"] * V["qx"] + V["qy"] * V["qy"] + V["qz"] * V["qz"] >= F(1, 100)],
            first_sample=dict(first, R=F(3, 2), t4=F(1, 5), t5=F(2, 7)), functions=fns, max_paths=(4 if tier == "quick" else 16), budget_s=(200 if tier == "quick" else 1200),
            stubs=["sin/cos/exp -> rational functions of tan(phase/2); |q| R is a phase discovered on the path"],
            bounds="sphere with free radius at lattice centre %s, wave vector free with |q|^2 >= 1e-2, density 2; batch form %s" % (centre, batch)))))
    return obs
