"""Base set of concrete rational shapes + independent exact combinatorics (Fractions only).

Convex solids are given by vertices; their facets are found here by brute force over all
vertex triples with exact arithmetic (independent of coxeter and of the symx hull stub).
Non-convex solids are extruded simple polygons with ear-clipped (triangulated) caps and
voxel-type solids with explicit faces.
"""
import itertools
from fractions import Fraction as F

from . import oracles as O


def _f(v):
    return [F(c) for c in v]


# ----------------------------------------------------------------------------- convex
CONVEX = {
    "tetra": [(0, 0, 0), (3, 0, 0), (0, 2, 0), (1, 1, 4)],
    "cube": [(-1, -1, -1), (-1, -1, 1), (-1, 1, -1), (-1, 1, 1), (1, -1, -1), (1, -1, 1), (1, 1, -1), (1, 1, 1)],
    "box": [(0, 0, 0), (0, 0, 3), (0, 2, 0), (0, 2, 3), (5, 0, 0), (5, 0, 3), (5, 2, 0), (5, 2, 3)],
    "pyramid": [(-1, -1, 0), (1, -1, 0), (1, 1, 0), (-1, 1, 0), (0, 0, 2)],
    "prism3": [(0, 0, 0), (4, 0, 0), (1, 3, 0), (0, 0, 2), (4, 0, 2), (1, 3, 2)],
    "octa": [(2, 0, 0), (-2, 0, 0), (0, 3, 0), (0, -3, 0), (0, 0, 1), (0, 0, -1)],
    "frustum": [(-2, -2, 0), (2, -2, 0), (2, 2, 0), (-2, 2, 0), (-1, -1, 2), (1, -1, 2), (1, 1, 2), (-1, 1, 2)],
    "wedge": [(0, 0, 0), (4, 0, 0), (4, 3, 0), (0, 3, 0), (0, 0, 2), (0, 3, 2)],
    # irregular facets (kite / trapezoid), chiral, off-centre
    "skew": [(0, 0, 0), (4, 0, 0), (5, 3, 0), (1, 4, 0), (1, 1, 3), (3, 1, 3), (3, 2, 3)],
    # cube [0,3]^3 with the corner (3,3,3) cut off: 7 faces of mixed degree
    "cutcube": [(0, 0, 0), (3, 0, 0), (0, 3, 0), (3, 3, 0), (0, 0, 3), (3, 0, 3), (0, 3, 3), (3, 3, 2), (3, 2, 3), (2, 3, 3)],
    "cubocta": [(1, 1, 0), (1, -1, 0), (-1, 1, 0), (-1, -1, 0), (1, 0, 1), (1, 0, -1), (-1, 0, 1), (-1, 0, -1), (0, 1, 1), (0, 1, -1),
                (0, -1, 1), (0, -1, -1)],
}


def convex_facets(verts):
    """Facets (outward counter-clockwise index cycles) of the hull of rational points in convex position."""
    P = [_f(v) for v in verts]
    n = len(P)
    cen = [sum(p[k] for p in P) / n for k in range(3)]
    facets = []
    seen = set()
    for i, j, k in itertools.combinations(range(n), 3):
        N = O.cross(O.sub(P[j], P[i]), O.sub(P[k], P[i]))
        if N == [0, 0, 0]:
            continue
        side = [O.dot(N, O.sub(P[m], P[i])) for m in range(n)]
        if any(s > 0 for s in side) and any(s < 0 for s in side):
            continue
        members = frozenset(m for m in range(n) if side[m] == 0)
        if members in seen:
            continue
        seen.add(members)
        if O.dot(N, O.sub(cen, P[i])) > 0:
            N = [-c for c in N]
        facets.append(order_ccw(P, sorted(members), N))
    assert set().union(*[set(f) for f in facets]) == set(range(n)), "points are not in convex position"
    return facets


def order_ccw(P, members, N):
    """Order coplanar points in convex position counter-clockwise about N (exact cross products)."""
    c = [sum(P[m][k] for m in members) / len(members) for k in range(3)]
    ref = O.sub(P[members[0]], c)

    def key(m):
        d = O.sub(P[m], c)
        cr = O.dot(N, O.cross(ref, d))
        dt = O.dot(ref, d)
        # half-plane index then exact comparison by cross product
        return (0 if (cr > 0 or (cr == 0 and dt > 0)) else 1), m

    upper = [m for m in members if key(m)[0] == 0]
    lower = [m for m in members if key(m)[0] == 1]

    def sort_half(ms):
        import functools

        def cmp(a, b):
            cr = O.dot(N, O.cross(O.sub(P[a], c), O.sub(P[b], c)))
            return -1 if cr > 0 else (1 if cr < 0 else 0)

        return sorted(ms, key=functools.cmp_to_key(cmp))

    return sort_half(upper) + sort_half(lower)


def fan(face):
    return [(face[0], face[i], face[i + 1]) for i in range(1, len(face) - 1)]


# ----------------------------------------------------------------------------- polygons
POLYGONS = {
    "L": [(0, 0), (4, 0), (4, 1), (1, 1), (1, 3), (0, 3)],
    "U": [(0, 0), (5, 0), (5, 4), (4, 4), (4, 1), (1, 1), (1, 4), (0, 4)],
    "C": [(0, 0), (3, 0), (3, 1), (1, 1), (1, 3), (3, 3), (3, 4), (0, 4)],
    "comb": [(0, 0), (7, 0), (7, 4), (6, 4), (6, 1), (5, 1), (5, 4), (4, 4), (4, 1), (3, 1), (3, 4), (0, 4)],
    "arrow": [(0, 0), (3, -2), (2, 0), (3, 2)],
    "tri": [(0, 0), (4, 0), (1, 3)],
    "quad": [(0, 0), (4, 0), (5, 3), (1, 4)],
    "pent": [(0, 0), (4, 0), (5, 2), (2, 5), (-1, 2)],
}


def ear_clip(poly):
    """Exact ear clipping of a simple counter-clockwise polygon; returns index triples (ccw)."""
    P = [(F(x), F(y)) for x, y in poly]
    idx = list(range(len(P)))
    tris = []

    def orient(a, b, c):
        return (P[b][0] - P[a][0]) * (P[c][1] - P[a][1]) - (P[b][1] - P[a][1]) * (P[c][0] - P[a][0])

    guard = 0
    while len(idx) > 3:
        guard += 1
        assert guard < 1000
        for t in range(len(idx)):
            a, b, c = idx[t - 1], idx[t], idx[(t + 1) % len(idx)]
            if orient(a, b, c) <= 0:
                continue
            if any(orient(a, b, m) >= 0 and orient(b, c, m) >= 0 and orient(c, a, m) >= 0 for m in idx if m not in (a, b, c)):
                continue
            tris.append((a, b, c))
            idx.pop(t)
            break
    tris.append(tuple(idx))
    return tris


def extrude(poly, h=2, triangulate_caps=True):
    """Prism over a simple ccw polygon: vertices, outward faces (caps triangulated unless convex)."""
    n = len(poly)
    verts = [(x, y, 0) for x, y in poly] + [(x, y, h) for x, y in poly]
    faces = []
    if triangulate_caps:
        for a, b, c in ear_clip(poly):
            faces.append([a, c, b])  # bottom: outward = -z
            faces.append([n + a, n + b, n + c])
    else:
        faces.append(list(range(n))[::-1])
        faces.append([n + i for i in range(n)])
    for i in range(n):
        j = (i + 1) % n
        faces.append([i, j, n + j, n + i])
    return verts, faces


def frame():
    """Square frame with a square hole (genus 1), all faces convex quads."""
    outer = [(0, 0), (4, 0), (4, 4), (0, 4)]
    inner = [(1, 1), (3, 1), (3, 3), (1, 3)]
    verts = [(x, y, 0) for x, y in outer] + [(x, y, 0) for x, y in inner] + [(x, y, 1) for x, y in outer] + [(x, y, 1) for x, y in inner]
    faces = []
    for i in range(4):
        j = (i + 1) % 4
        faces.append([i, 4 + i, 4 + j, j])  # bottom ring trapezoid, outward -z
        faces.append([8 + i, 8 + j, 12 + j, 12 + i])  # top ring, outward +z
        faces.append([i, j, 8 + j, 8 + i])  # outer wall
        faces.append([4 + i, 12 + i, 12 + j, 4 + j])  # inner wall (faces the hole)
    return verts, faces


def star_hull():
    """Radially perturbed triangulated octahedron-type hull (star-shaped, non-convex)."""
    verts = [(3, 0, 0), (-3, 0, 0), (0, 3, 0), (0, -3, 0), (0, 0, 3), (0, 0, -3), (F(1, 2), F(1, 2), F(1, 2))]
    # octahedron with the (+,+,+) face replaced by a dent towards the centre
    faces = [[0, 2, 6], [2, 4, 6], [4, 0, 6], [2, 1, 4], [1, 3, 4], [3, 0, 4], [2, 0, 5], [1, 2, 5], [3, 1, 5], [0, 3, 5]]
    return verts, faces


def nonconvex(name):
    if name == "frame":
        return frame()
    if name == "star":
        return star_hull()
    if name.endswith("_prism"):
        return extrude(POLYGONS[name[:-6]])
    raise KeyError(name)


NONCONVEX = ["L_prism", "U_prism", "C_prism", "arrow_prism", "frame", "star"]


def check_closed_oriented(verts, faces):
    """Every directed edge appears once, its reverse once; volume positive. Returns exact volume."""
    edges = {}
    for f in faces:
        for i in range(len(f)):
            e = (f[i], f[(i + 1) % len(f)])
            assert e not in edges, ("edge twice", e)
            edges[e] = 1
    for (a, b) in edges:
        assert (b, a) in edges, ("open edge", a, b)
    P = [_f(v) for v in verts]
    tris = [(P[a], P[b], P[c]) for f in faces for a, b, c in fan(f)]
    V, _, _ = O.polyhedron_moments(tris)
    assert V > 0, V
    return V


QUATS = {"id": None, "rz90": (1, 0, 0, 1), "r1": (1, 2, 2, 0), "r2": (2, 1, -1, 3), "r3": (3, -1, 2, 5)}


def place(verts, quat_key, s, t):
    """s * R0 * v + t for every vertex (works for Sym / float / Fraction s, t)."""
    q = QUATS[quat_key]
    R = O.rot_from_quat(*q) if q else None
    out = []
    for v in verts:
        p = [F(c) for c in v]
        if R is not None:
            p = O.matvec(R, p)
        out.append([s * p[k] + t[k] for k in range(3)])
    return out


if __name__ == "__main__":
    for k, v in CONVEX.items():
        fs = convex_facets(v)
        print(k, len(v), "verts", len(fs), "facets", check_closed_oriented(v, fs))
    for k in NONCONVEX:
        v, f = nonconvex(k)
        print(k, len(v), "verts", len(f), "faces", check_closed_oriented(v, f))
