"""C17 - parametric shape families generate exactly the documented shapes.

(A) ``TruncationPlaneShapeFamily.make_vertices`` runs with the parameters *free reals* (323+: a and
    c; 423: one parameter free along lines; truncated tetrahedron: the truncation).  The harness
    enumerates every plane triple itself (exact Cramer solution, exact feasibility, no thresholds)
    and claims, on every cell of the parameter domain the path exploration reaches: each feasible
    triple point is among the returned vertices and each returned vertex is a feasible triple point
    (QF_LRA queries), provided the exact vertices are well separated (margin 1e-3).
(B) ``get_shape`` through the real ConvexPolyhedron constructor on a rational grid incl. edges and
    corners (z3 enumerates the grid index): vertex set = exact vertex set of the half-space
    intersection, V - E + F = 2, facets = hull facets of the exact vertices.
(C) domain guards with free parameters (constructor replaced by a marker): accepted <=> in domain.
(D) RegularNGonFamily and the uniform prism / antiprism / pyramid / dipyramid families for n with
    closed-form trigonometric values (exact algebraic arithmetic): unit area / volume, first vertex
    on +x, origin-centred, all edges equal, vertex counts.
Family523: only (C) - its plane normals are doubles of irrational numbers, an exact-arithmetic
oracle does not describe that shape.
"""
import itertools
from fractions import Fraction as F

from . import common, oracles as O, shapes as SH
from .common import run_e2, run_z3_enum

LEVEL = "model_checking"
TECHNIQUE = "symbolic execution of make_vertices with free family parameters vs exact plane-triple enumeration (QF_LRA); z3-enumerated rational grid through the real constructor; exact algebraic evaluation of the n-gon families"
ASSUMPTIONS = [
    "A1 reals not floats: thresholds 1e-6 and round(6) de-duplication are modelled exactly, claims are conditioned on the exact vertices being separated by > 1e-3",
    "np.unique's output order on symbolic rows is modelled as first-occurrence order (consumers are order-independent)",
    "Family523 geometry not applicable (irrational plane normals stored as doubles); n restricted to values with closed-form cos/sin (3,4,5,6,8,10,12)",
]
SEP = F(1, 1000)


def _fam(name):
    import coxeter.families as Fm

    return getattr(Fm, name)


def _triples(planes):
    n = len(planes)
    out = []
    for i, j, k in itertools.combinations(range(n), 3):
        A = [planes[i], planes[j], planes[k]]
        d = O.det3(*A)
        if d != 0:
            out.append(((i, j, k), A, d))
    return out


def _cramer(A, d, rhs):
    cols = list(zip(*A))
    x = []
    for c in range(3):
        M = [list(r) for r in A]
        for r in range(3):
            M[r][c] = rhs[r]
        x.append(O.det3(*M) / d)
    return x


def make_vertices_body(famname, params):
    """params: function V -> (a, b, c)"""
    fam = _fam(famname)
    planes = [[F(int(round(c))) if float(c).is_integer() else F(c) for c in p] for p in fam._planes.tolist()]
    types = [int(t) for t in fam._plane_types.tolist()]
    trip = _triples(planes)

    def body(H, V):
        a, b, c = params(H, V)
        dists = [a, b, c]
        got = fam.make_vertices(a, b, c)
        got = [[got[i][k] for k in range(3)] for i in range(len(got))]
        cand = []
        for (idx, A, d) in trip:
            x = _cramer(A, d, [dists[types[m]] for m in idx])
            feas = H.and_(*[H.le(O.dot(planes[m], x), dists[types[m]]) for m in range(len(planes)) if m not in idx])
            cand.append((idx, x, feas))
        # well separated: any two feasible candidate points are equal or differ by > SEP in some coordinate
        def same(p, q):
            return H.and_(*[H.eqb(p[k], q[k]) for k in range(3)])

        def apart(p, q):
            return H.or_(*[H.or_(p[k] - q[k] > SEP, q[k] - p[k] > SEP) for k in range(3)])

        feasible_now = [(idx, x) for idx, x, f in cand if bool(f)]  # decided on this path (forks)
        sep = True
        for i in range(len(feasible_now)):
            for j in range(i + 1, len(feasible_now)):
                p, q = feasible_now[i][1], feasible_now[j][1]
                if not (bool(same(p, q)) or bool(apart(p, q))):
                    sep = False
        if not sep:
            H.ok("cell_boundary_skipped", "exact vertices closer than %s: outside the claim" % SEP)
            return
        # distinct exact vertices of this cell
        exact = []
        for idx, x in feasible_now:
            if not any(bool(same(x, y)) for y in exact):
                exact.append(x)
        H.claim("vertex_count=exact", len(got) == len(exact))
        for n_, x in enumerate(exact):
            H.claim("exact_vertex_returned[%d]" % n_, H.or_(*[same(x, v) for v in got]) if got else False)
        for n_, v in enumerate(got):
            H.claim("returned_vertex_is_exact[%d]" % n_, H.or_(*[same(x, v) for x in exact]) if exact else False)

    return body


def _exact_vertices(planes, types, dists):
    pts = set()
    for (idx, A, d) in _triples(planes):
        x = _cramer(A, d, [dists[types[m]] for m in idx])
        if all(O.dot(planes[m], x) <= dists[types[m]] for m in range(len(planes))):
            pts.add(tuple(x))
    return sorted(pts)


def grid_ob(famname, tier):
    fam = _fam(famname)
    planes = [[F(c) for c in p] for p in fam._planes.tolist()]
    types = [int(t) for t in fam._plane_types.tolist()]
    if famname == "Family323Plus":
        A = [F(1), F(5, 4), F(3, 2), F(2), F(5, 2), F(11, 4), F(3)]
        grid = [(a, F(1), c) for a in A for c in A]
        call = lambda a, b, c: fam.get_shape(float(a), float(c))  # noqa: E731
    elif famname == "Family423":
        A = [F(1), F(5, 4), F(3, 2), F(7, 4), F(2)]
        C = [F(2), F(9, 4), F(5, 2), F(11, 4), F(3)]
        grid = [(a, F(2), c) for a in A for c in C]
        call = lambda a, b, c: fam.get_shape(float(a), float(c))  # noqa: E731
    else:
        T = [F(i, 8) for i in range(9)]
        grid = [(F(1), F(1), 3 - 2 * t) for t in T]
        call = lambda a, b, c: fam.get_shape(float((3 - c) / 2))  # noqa: E731
    if tier == "quick":
        grid = grid[::2] if len(grid) > 20 else grid

    def fn(i):
        import numpy as rnp

        a, b, c = grid[i]
        want = _exact_vertices(planes, types, [a, b, c])
        shape = call(a, b, c)
        got = sorted(tuple(round(float(x), 9) for x in v) for v in shape.vertices)
        wf = sorted(tuple(round(float(x), 9) for x in v) for v in want)
        if len(got) != len(wf) or any(abs(p - q) > 1e-6 for g, w in zip(got, wf) for p, q in zip(g, w)):
            return False, "parameters %s: %d vertices returned, exact intersection has %d (or coordinates differ)" % ((str(a), str(c)), len(got), len(wf))
        facets = SH.convex_facets([tuple(v) for v in want]) if len(want) >= 4 else []
        nE = len({frozenset((f[k], f[(k + 1) % len(f)])) for f in facets for k in range(len(f))})
        if len(shape.faces) != len(facets) or int(shape.num_edges) != nE or len(want) - nE + len(facets) != 2:
            return False, "parameters %s: faces %d vs %d, edges %d vs %d" % ((str(a), str(c)), len(shape.faces), len(facets), int(shape.num_edges), nE)
        return True, ""

    name = "C17/grid.%s" % famname
    return (name, lambda: run_z3_enum(name, 0, len(grid), fn, describe=lambda i: "a=%s,c=%s" % (grid[i][0], grid[i][2]),
                                      bounds="%s.get_shape on %d rational grid points incl. edges and corners of the domain, through the real constructor (float64); "
                                             "compared with the exact vertex enumeration and its hull facets" % (famname, len(grid)),
                                      functions=["coxeter.families.plane_shape_families.TruncationPlaneShapeFamily.make_vertices", "%s.get_shape" % famname]))


def guard_body(famname):
    fam = _fam(famname)

    def body(H, V):
        import coxeter.families.plane_shape_families as M
        import math

        real = M.ConvexPolyhedron
        M.ConvexPolyhedron = lambda verts: "SHAPE"
        real_mv = fam.make_vertices
        try:
            if famname == "TruncatedTetrahedronFamily":
                t = V["a"]
                lo, hi = [(F(0), F(1))], None
                try:
                    type(fam).make_vertices
                except Exception:  # noqa: BLE001
                    pass
                setattr(M.TruncationPlaneShapeFamily, "_saved_mv", None)
                args, dom = (t,), [(t, F(0), F(1))]
            else:
                a, c = V["a"], V["c"]
                s5 = (1 / F(M.golden_ratio)) * F(math.sqrt(5)) if famname == "Family523" else None
                bounds = {"Family323Plus": ((1, 3), (1, 3)), "Family423": ((1, 2), (2, 3)),
                          "Family523": ((1, s5), (F(M.golden_ratio) ** 2, 3))}[famname]
                args, dom = (a, c), [(a, bounds[0][0], bounds[0][1]), (c, bounds[1][0], bounds[1][1])]
            # replace the geometry by a marker: only the guards are the subject here
            orig = M.TruncationPlaneShapeFamily.__dict__["make_vertices"]
            M.TruncationPlaneShapeFamily.make_vertices = classmethod(lambda cls, a_, b_, c_: "VERTS")
            try:
                try:
                    r = fam.get_shape(*args)
                    acc = True
                except ValueError:
                    acc = False
            finally:
                M.TruncationPlaneShapeFamily.make_vertices = orig
        finally:
            M.ConvexPolyhedron = real
        eps = F(1, 10 ** 9)
        clearly_in = H.and_(*[H.and_(x >= lo + eps, x <= hi - eps) for x, lo, hi in dom])
        clearly_out = H.or_(*[H.or_(x <= lo - eps, x >= hi + eps) for x, lo, hi in dom])
        if acc:
            H.claim("accepted=>not_clearly_outside", H.not_(clearly_out))
        else:
            H.claim("rejected=>not_clearly_inside", H.not_(clearly_in))

    return body


def ngon_body(n):
    def body(H, V):
        import coxeter.families as Fm

        s = Fm.RegularNGonFamily.get_shape(n)
        vs = [list(v) for v in Fm.RegularNGonFamily.make_vertices(n)]
        H.claim("ngon.vertex_count", len(vs) == n and s.num_vertices == n)
        H.claim_eq("ngon.unit_area", s.area, 1)
        H.claim("ngon.first_vertex_on_+x", H.and_(H.eqb(vs[0][1], 0), vs[0][0] > 0, H.eqb(vs[0][2], 0)))
        for k in range(3):
            H.claim_eq("ngon.origin_centred[%d]" % k, sum(v[k] for v in vs), 0)
        e0 = O.dot(O.sub(vs[1], vs[0]), O.sub(vs[1], vs[0]))
        r0 = O.dot(vs[0], vs[0])
        for i in range(n):
            d = O.sub(vs[(i + 1) % n], vs[i])
            H.claim_eq("ngon.equal_edges[%d]" % i, O.dot(d, d), e0)
            H.claim_eq("ngon.on_circle[%d]" % i, O.dot(vs[i], vs[i]), r0)

    return body


def uniform_body(famname, n, nverts):
    def body(H, V):
        import coxeter.families as Fm

        fam = getattr(Fm, famname)
        s = fam.get_shape(n)
        vs = [list(v) for v in s.vertices]
        H.claim("%s.vertex_count" % famname, len(vs) == nverts)
        H.claim_eq("%s.unit_volume" % famname, s.volume, 1)
        if famname in ("UniformPrismFamily", "UniformAntiprismFamily", "UniformDipyramidFamily"):
            for k in range(3):
                H.claim_eq("%s.origin_centred[%d]" % (famname, k), s.centroid[k], 0)
        else:
            for k in range(2):
                H.claim_eq("%s.axis_centred[%d]" % (famname, k), s.centroid[k], 0)
        E = [tuple(int(x) for x in e) for e in s.edges]
        e0 = None
        for a, b in E:
            d = O.sub(vs[a], vs[b])
            L = O.dot(d, d)
            if e0 is None:
                e0 = L
            else:
                H.claim_eq("%s.equal_edges[%d,%d]" % (famname, a, b), L, e0)

    return body


def all_n_ob(famname, lo, hi, nverts):
    """Finite domain n in [lo, hi): z3 enumerates every n, the family runs natively (float64) and the same claims as in
    the exact obligations are evaluated with a 1e-9 tolerance.  Vertex counts, unit measure, centring, equal edges and
    the +x start are decided for every admissible n of the documented range, not only the n with closed-form trig."""
    def fn(n):
        H = common.Cx(rtol=1e-9)
        (ngon_body(n) if famname == "RegularNGonFamily" else uniform_body(famname, n, nverts(n)))(H, {})
        bad = [(k, d) for k, (ok, d) in H.results.items() if not ok]
        if not H.results:
            return False, "no claim evaluated"
        return (not bad), ("n=%d: %s %s" % (n, bad[0][0], bad[0][1]) if bad else "")

    name = "C17/all_n.%s" % famname
    return (name, lambda: run_z3_enum(name, lo, hi, fn, describe=lambda n: "n=%d" % n,
                                      bounds="%s for every n in %d..%d through the real code on float64 (tolerance 1e-9): vertex count, unit area / volume, centring, equal edge lengths%s"
                                             % (famname, lo, hi - 1, ", first vertex on +x, vertices on a circle" if famname == "RegularNGonFamily" else ""),
                                      functions=["coxeter.families.common._make_ngon", "coxeter.families.%s.get_shape / make_vertices" % famname]))


def obligations(tier, seed):
    from symx.loader import functions_encoded
    import coxeter.families as Fm
    from coxeter.families import plane_shape_families as PF, common as FC

    fns = functions_encoded([PF.TruncationPlaneShapeFamily.make_vertices.__func__, PF.Family323Plus.get_shape.__func__, PF.Family423.get_shape.__func__,
                             PF.TruncatedTetrahedronFamily.get_shape.__func__, FC._make_ngon])
    obs = []
    mp = 3 if tier == "quick" else 24
    obs.append(("C17/make_vertices.Family323Plus.free_ac", lambda: run_e2(
        "C17/make_vertices.Family323Plus.free_ac", ["a", "c"], make_vertices_body("Family323Plus", lambda H, V: (V["a"], H.num(1), V["c"])),
        pre=lambda V: [V["a"] >= 1, V["a"] <= 3, V["c"] >= 1, V["c"] <= 3], first_sample=dict(a=F(2), c=F(5, 2)), functions=fns, max_paths=mp,
        budget_s=(250 if tier == "quick" else 2000), bounds="Family323Plus: a, c free in [1,3]^2 (two free reals), b = 1; cells reached within the path budget")))
    for fixed_c in ([F(5, 2)] if tier == "quick" else [F(9, 4), F(5, 2), F(11, 4)]):
        nm = "C17/make_vertices.Family423.c=%s" % str(fixed_c).replace("/", "_")
        obs.append((nm, (lambda nm=nm, fixed_c=fixed_c: run_e2(
            nm, ["a"], make_vertices_body("Family423", lambda H, V: (V["a"], H.num(2), H.num(fixed_c))), pre=lambda V: [V["a"] >= 1, V["a"] <= 2],
            first_sample=dict(a=F(5, 4)), functions=fns, max_paths=(2 if tier == "quick" else 8), budget_s=(300 if tier == "quick" else 2000),
            bounds="Family423 along the line c = %s, a free in [1,2], b = 2" % fixed_c))))
    obs.append(("C17/make_vertices.TruncatedTetrahedron.free_t", lambda: run_e2(
        "C17/make_vertices.TruncatedTetrahedron.free_t", ["t"], make_vertices_body("TruncatedTetrahedronFamily", lambda H, V: (H.num(1), H.num(1), 3 - 2 * V["t"])),
        pre=lambda V: [V["t"] >= 0, V["t"] <= 1], first_sample=dict(t=F(1, 3)), functions=fns, max_paths=(4 if tier == "quick" else 16),
        bounds="TruncatedTetrahedronFamily: truncation t free in [0,1] (a = b = 1, c = 3 - 2t)")))
    for famname in ("Family323Plus", "Family423", "TruncatedTetrahedronFamily"):
        obs.append(grid_ob(famname, tier))
    for famname in ("Family323Plus", "Family423", "Family523", "TruncatedTetrahedronFamily"):
        nm = "C17/guards.%s" % famname
        obs.append((nm, (lambda nm=nm, famname=famname: run_e2(
            nm, ["a", "c"], guard_body(famname), first_sample=dict(a=F(3, 2), c=F(5, 2)), max_paths=40, functions=fns,
            bounds="%s.get_shape with free parameter(s) of either side of the domain; geometry replaced by a marker (guards only)" % famname))))
    ns = (3, 4, 5, 6, 8) if tier == "quick" else (3, 4, 5, 6, 8, 10, 12)
    for n in ns:
        nm = "C17/RegularNGonFamily.n%d" % n
        obs.append((nm, (lambda nm=nm, n=n: run_e2(nm, ["dummy"], ngon_body(n), first_sample=dict(dummy=F(1)), functions=fns, max_paths=2,
                                                   stubs=["qhull 2-D / kabsch contract stubs"], bounds="n = %d, exact algebraic coordinates" % n))))
    hi = 201
    obs.append(all_n_ob("RegularNGonFamily", 3, hi, lambda n: n))
    obs.append(all_n_ob("UniformPrismFamily", 3, hi, lambda n: 2 * n))
    obs.append(all_n_ob("UniformAntiprismFamily", 3, hi, lambda n: 2 * n))
    obs.append(all_n_ob("UniformPyramidFamily", 3, 6, lambda n: n + 1))
    obs.append(all_n_ob("UniformDipyramidFamily", 3, 6, lambda n: n + 2))
    uni = [("UniformPrismFamily", n, 2 * n) for n in ((3, 4, 5, 6) if tier == "quick" else (3, 4, 5, 6, 8, 10))] + \
          [("UniformAntiprismFamily", n, 2 * n) for n in ((3, 4) if tier == "quick" else (3, 4, 5, 6))] + \
          [("UniformPyramidFamily", n, n + 1) for n in (3, 4, 5)] + [("UniformDipyramidFamily", n, n + 2) for n in (3, 4, 5)]
    for famname, n, nv in uni:
        nm = "C17/%s.n%d" % (famname, n)
        obs.append((nm, (lambda nm=nm, famname=famname, n=n, nv=nv: run_e2(
            nm, ["dummy"], uniform_body(famname, n, nv), first_sample=dict(dummy=F(1)), functions=fns, max_paths=2, budget_s=(300 if tier == "quick" else 1500),
            stubs=["ConvexHull -> exact hull", "kabsch contract stub"], bounds="%s n = %d, exact algebraic coordinates through the real constructor" % (famname, n)))))
    return obs
