"""Framework shared by the per-property harnesses: modes, obligations, replay, evidence."""
import glob
import hashlib
import json
import math
import multiprocessing as mp
import os
import re
import subprocess
import sys
import time
import traceback
from fractions import Fraction

VERIF = os.path.dirname(os.path.dirname(os.path.abspath(__file__)))
sys.path.insert(0, VERIF)

import numpy as rnp  # the real numpy  # noqa: E402

from symx import core, loader  # noqa: E402
from symx.core import Ctx, Sym, SymBool, Cond, explore  # noqa: E402

REPLAY_REQUEST = None  # set by harness.run --replay
# Registered commands always use /repo and /verif/evidence; the two overrides exist for the seeded-change tooling
# (bin/seedrun.sh), which checks a patched scratch worktree without touching /repo or the committed evidence.
REPO = os.environ.get("VERIF_REPO", "/repo")
EVID = os.environ.get("VERIF_EVIDENCE_DIR") or os.path.join(VERIF, "evidence")
REPLAY = os.path.join(EVID, "replay")


# ----------------------------------------------------------------------------- modes
class Sx:
    """Symbolic mode: claims go to the solver."""

    symbolic = True

    def __init__(self, ctx):
        self.ctx = ctx

    @property
    def pi(self):
        return self.ctx.pi

    def num(self, x):
        return self.ctx.const(x)

    def sqrt(self, x):
        return Sym._co(core.force(x)).sqrt()

    def cbrt(self, x):
        return Sym._co(core.force(x)).root(3)

    def arr(self, x):
        from symx.npshim import sarr

        return sarr(x)

    def special(self, name, *args):
        from symx import stubs, angle

        if name == "arccos":
            return angle.arccos(args[0])
        return getattr(stubs, name)(*args)

    def sin(self, x):
        return x.sin() if hasattr(x, "sin") else Sym._co(x).sin()

    def cos(self, x):
        return x.cos() if hasattr(x, "cos") else Sym._co(x).cos()

    # boolean algebra usable in both modes
    def b(self, x):
        if isinstance(x, SymBool):
            return x
        if isinstance(x, Cond):
            return SymBool(x)
        return SymBool(Cond.const(bool(x)))

    def and_(self, *xs):
        return core.sym_and(*[self.b(x) for x in xs])

    def or_(self, *xs):
        return core.sym_or(*[self.b(x) for x in xs])

    def not_(self, x):
        return ~self.b(x)

    def iff(self, x, y):
        return self.b(x) == self.b(y)

    def xor(self, x, y):
        return self.b(x) != self.b(y)

    def le(self, a, b):
        """a <= b (exact here; with a rounding allowance in concrete mode)."""
        return a <= b

    def eqb(self, a, b):
        """a == b as a boolean (exact here; approximate in concrete mode)."""
        return a == b

    def claim_eq(self, name, a, b):
        return core.claim_eq(name, a, b)

    def claim_all_eq(self, name, a, b):
        return core.claim_all_eq(name, a, b)

    def claim(self, name, cond):
        if isinstance(cond, (bool, rnp.bool_)):
            cond = Cond.const(bool(cond))
        return core.claim(name, cond)

    def fail(self, name, detail=""):
        r = core.ClaimResult(name, "violated", dict(self.ctx.sample), detail)
        self.ctx.claims.append(r)
        return r

    def ok(self, name, detail=""):
        r = core.ClaimResult(name, "held", None, detail)
        self.ctx.claims.append(r)
        return r


class Cx:
    """Concrete mode: the same harness body on real numpy float64; claims compare floats."""

    symbolic = False
    pi = math.pi

    def __init__(self, rtol=1e-7, floor=1.0):
        self.rtol = rtol
        # comparisons are relative to max(floor, |a|, |b|): floor 1 makes tiny quantities compare absolutely (rounding
        # noise around an exact zero must not count as a difference).  A witness the solver certified to differ by
        # more than 1e-5 relatively is replayed with floor 0 (purely relative), so that defects which only show at
        # small magnitudes reproduce.
        self.floor = floor
        self.results = {}

    def num(self, x):
        return float(x)

    def sqrt(self, x):
        return math.sqrt(x)

    def cbrt(self, x):
        return float(rnp.cbrt(x))

    def arr(self, x):
        return rnp.array(x, dtype=float)

    def special(self, name, *args):
        import scipy.special

        if name == "arccos":
            return math.acos(args[0])
        return float(getattr(scipy.special, name)(*args))

    def sin(self, x):
        return math.sin(x)

    def cos(self, x):
        return math.cos(x)

    def _rec(self, name, ok, detail):
        self.results[name] = (bool(ok), detail)

    def b(self, x):
        return bool(x)

    def and_(self, *xs):
        return all(bool(x) for x in xs)

    def or_(self, *xs):
        return any(bool(x) for x in xs)

    def not_(self, x):
        return not bool(x)

    def iff(self, x, y):
        return bool(x) == bool(y)

    def xor(self, x, y):
        return bool(x) != bool(y)

    def le(self, a, b):
        a, b = float(a), float(b)
        return a <= b + self.rtol * max(1.0, abs(a), abs(b))

    def eqb(self, a, b):
        a, b = float(a), float(b)
        return abs(a - b) <= self.rtol * max(1.0, abs(a), abs(b))

    def claim_eq(self, name, a, b):
        a, b = float(a), float(b)
        scale = max(self.floor, abs(a), abs(b))
        ok = math.isfinite(a) and math.isfinite(b) and abs(a - b) <= self.rtol * scale
        self._rec(name, ok, "impl=%r oracle=%r" % (a, b))

    def claim_all_eq(self, name, a, b):
        a = rnp.asarray(a, dtype=float)
        b = rnp.asarray(b, dtype=float)
        if a.shape != b.shape:
            self._rec(name, False, "shape %r vs %r" % (a.shape, b.shape))
            return
        for idx in rnp.ndindex(*a.shape):
            self.claim_eq("%s%s" % (name, list(idx)), a[idx], b[idx])

    def claim(self, name, cond):
        self._rec(name, bool(cond), "")

    def fail(self, name, detail=""):
        self._rec(name, False, detail)

    def ok(self, name, detail=""):
        self._rec(name, True, detail)


# ----------------------------------------------------------------------------- E2 obligation driver
def _jsonable(x):
    if isinstance(x, Fraction):
        return str(x)
    if isinstance(x, dict):
        return {str(k): _jsonable(v) for k, v in x.items()}
    if isinstance(x, (list, tuple)):
        return [_jsonable(v) for v in x]
    if isinstance(x, (rnp.floating, rnp.integer)):
        return x.item()
    if isinstance(x, (int, float, str, bool)) or x is None:
        return x
    return repr(x)


def run_e2(name, names, body, natoms=None, **kw):
    """run_e2_once with as few atom slots as possible (ring operations cost grows with the number of generators):
    start small and double when a path runs out of slots."""
    n = 24 if natoms is None else min(natoms, 24)
    while True:
        r = run_e2_once(name, names, body, natoms=n, **kw)
        out = [e for e in r.get("harness_errors", []) if "out of atom slots" in e]
        if n < 192 and out:
            n *= 2
            continue
        if out:
            # at the cap this is a resource bound like the path budget: the path is left unexplored and counted as such
            r["harness_errors"] = [e for e in r["harness_errors"] if "out of atom slots" not in e]
            r["left"] = r.get("left", 0) + len(out)
            r["bounds"] = (r.get("bounds") or "") + "; %d path(s) abandoned at the cap of %d algebraic atoms" % (len(out), n)
        r["natoms"] = n
        return r


def run_e2_once(name, names, body, pre=None, positive=(), expect_raise=None, max_paths=64, budget_s=240.0, natoms=80,
           setup=None, concrete=None, first_sample=None, functions=(), bounds="", stubs=(), pi=True, rtol=1e-7,
           allow_status=("ok",), lemmas=None, alt_timeout_ms=4000, solver_timeout_ms=20000):
    """Explore ``body(H, V)`` symbolically (V: dict name -> Sym) and replay violations concretely.

    body must build the shape(s) from V through the real coxeter API and register claims on H.
    ``concrete(H, values)`` defaults to ``body`` itself with floats.
    ``pre(V)`` returns a list of SymBool/Cond preconditions.
    """
    t0 = time.time()
    if REPLAY_REQUEST:
        # bin/check <ID> --replay FILE: run the harness body on the real float64 code at the recorded witness
        w = {k: Fraction(v) for k, v in REPLAY_REQUEST["witness"].items()}
        rep = replay_concrete(concrete or body, names, w, rtol, floor=float(REPLAY_REQUEST.get("comparison_floor", 1.0)))
        hit = _match_claim(rep, REPLAY_REQUEST["claim"])
        return dict(name=name, replay=dict(claim=REPLAY_REQUEST["claim"], float_values=rep.get("values"), error=rep.get("error"),
                                           claim_result=(None if hit is None else dict(holds=hit[0], detail=hit[1]))))
    ctx = Ctx(list(names), natoms=natoms, pi=pi)
    ctx.alt_timeout_ms = alt_timeout_ms
    ctx.solver_timeout_ms = solver_timeout_ms
    core.CTX = ctx
    if positive:
        ctx.declare_positive(*positive)
    V = {n: ctx.sym(n) for n in names}
    H = Sx(ctx)
    if setup:
        setup(ctx)
    res = dict(name=name, engine="symx", bounds=bounds, stubs=list(stubs), functions=list(functions), names=list(names))

    def fn():
        return body(H, V)

    with loader.symbolic(ctx):
        pre_c = list(pre(V)) if pre else []
        if lemmas:
            pre_c += list(lemmas(V))
        paths, stats = explore(ctx, fn, pre=pre_c, max_paths=max_paths, budget_s=budget_s, first_sample=first_sample)
    res.update(stats)
    res["cvc5"] = dict(ctx.cvc5)
    res["cvc5_s"] = round(ctx.cvc5_s, 2)
    claims = {}
    n_claims = 0
    harness_errors = []
    samples = []
    statuses = {}
    for p in paths:
        statuses[p.status] = statuses.get(p.status, 0) + 1
        if len(samples) < 3:
            samples.append(dict(sample=_jsonable(p.sample), status=p.status, decisions=len(p.decisions), pc_size=len(p.pc),
                                claims=[c.as_dict() | {"witness": _jsonable(c.witness)} for c in p.claims[:4]]))
        if p.status == "abort":
            harness_errors.append("path aborted: %s" % p.error)
        elif p.status == "shim-error":
            harness_errors.append("shim error: %s" % (p.error or "")[-700:])
        elif p.status == "diverged":
            pass
        elif p.status not in allow_status:
            # an outcome the harness did not expect: exception / non-finite result inside the real code
            c = core.ClaimResult("outcome:" + p.status, "violated", dict(p.sample), (p.error or "")[-600:])
            p.claims.append(c)
        for c in p.claims:
            n_claims += 1
            d = claims.setdefault(c.name, dict(held=0, violated=0, inconclusive=0, witness=None, detail="", solver_s=0.0))
            d[c.verdict] += 1
            d["solver_s"] += c.solver_s
            if c.verdict == "violated" and d["witness"] is None:
                d["witness"] = c.witness if c.witness else dict(p.sample)
                d["alt_witness"] = dict(p.sample)
                d["more"] = list(getattr(c, "more", []) or [])
                d["detail"] = c.detail
    res["path_status"] = statuses
    res["n_claims"] = n_claims
    res["claims"] = {k: dict(held=v["held"], violated=v["violated"], inconclusive=v["inconclusive"], solver_s=round(v["solver_s"], 3))
                     for k, v in claims.items()}
    res["samples"] = samples
    # replay
    violations, unreproduced = [], []
    conc = concrete or body
    for cname, d in claims.items():
        if not d["violated"]:
            continue
        done = False
        for w in [d["witness"], d.get("alt_witness")] + list(d.get("more") or []):
            if w is None:
                continue
            rep = replay_concrete(conc, names, w, rtol)
            hit = _match_claim(rep, cname)
            floor = 1.0
            if (hit is None or hit[0]) and "relative difference above" in (d.get("detail") or ""):
                floor = 0.0
                rep = replay_concrete(conc, names, w, rtol, floor=floor)
                hit = _match_claim(rep, cname)
            if hit is not None and not hit[0]:
                path = write_replay(name, cname, w, rep, hit[1], floor=floor)
                violations.append(dict(claim=cname, witness=_jsonable(w), detail=hit[1], replay=path))
                done = True
                break
        if not done:
            unreproduced.append(dict(claim=cname, witness=_jsonable(d["witness"]), detail=d["detail"]))
            if cname.startswith("outcome:raise"):
                # the code raised in the model but not on float64 at any of the witnesses (a division by an exact zero that floats
                # only approach, outcome:nonfinite, is a legitimate difference and stays "unreproduced"): the model
                # does not follow the code (e.g. a numpy function the shim lacks) - a harness error, never a silent pass
                harness_errors.append("model/real disagreement: %s in the model (%s) is not reproduced by the float64 code" % (cname, (d["detail"] or "")[-160:].replace("\n", " ")))
    # translator validation: at the sample point of explored paths the real float64 code must agree with
    # every claim the solver discharged on that path (checks shim + stubs + oracle against the implementation)
    validated = 0
    for p in [q for q in paths if q.status == "ok"][:2]:
        held = [c.name for c in p.claims if c.verdict == "held"]
        if not held:
            continue
        rep = replay_concrete(conc, names, p.sample, rtol)
        r = rep.get("results", {})
        for cn in held:
            if cn in r:
                validated += 1
                if not r[cn][0]:
                    harness_errors.append("model/real disagreement at sample %s: claim %s held symbolically but fails on the float64 code (%s)"
                                          % (_jsonable(p.sample), cn, r[cn][1]))
        if "error" in rep and not r:
            harness_errors.append("model/real disagreement: real code raised %s at sample %s" % (rep["error"], _jsonable(p.sample)))
    res["validated"] = validated
    res["violations"] = violations
    res["unreproduced"] = unreproduced
    res["inconclusive"] = [k for k, v in claims.items() if v["inconclusive"] and not v["violated"]]
    res["harness_errors"] = harness_errors[:5]
    res["vacuous"] = (statuses.get("ok", 0) + statuses.get("raise", 0) + statuses.get("nonfinite", 0) == 0) or n_claims == 0
    res["wall_s"] = round(time.time() - t0, 2)
    return res


def _match_claim(rep, cname):
    if "error" in rep and cname.startswith("outcome:"):
        return (False, rep["error"])
    r = rep.get("results", {})
    if cname in r:
        return r[cname]
    if cname.startswith("outcome:") and "error" in rep:
        return (False, rep["error"])
    if "error" in rep:
        # the concrete run raised before reaching the claim: that is itself the failure
        return (False, "real code raised: " + rep["error"]) if rep.get("raised_in_repo") else None
    return None


def replay_concrete(conc, names, witness, rtol=1e-7, floor=1.0):
    """Run the harness body on the real float64 code at the witness."""
    H = Cx(rtol, floor)
    vals = {n: float(witness.get(n, 0)) for n in names}
    out = dict(values=vals)
    try:
        conc(H, vals)
    except Exception as ex:  # noqa: BLE001
        tb = traceback.extract_tb(ex.__traceback__)
        out["error"] = "%s: %s" % (type(ex).__name__, ex)
        out["raised_in_repo"] = any("/coxeter/" in f.filename for f in tb)
    out["results"] = H.results
    return out


def write_replay(ob, cname, witness, rep, detail, floor=1.0):
    os.makedirs(REPLAY, exist_ok=True)
    key = re.sub(r"[^A-Za-z0-9_.-]+", "_", "%s__%s" % (ob, cname))[:150]
    path = os.path.join(REPLAY, key + ".json")
    with open(path, "w") as f:
        json.dump(dict(obligation=ob, claim=cname, witness=_jsonable(witness), float_values=rep.get("values"), comparison_floor=floor,
                       detail=detail, how="bin/check %s --replay %s" % (ob.split("/")[0], path)), f, indent=1)
    return path


# ----------------------------------------------------------------------------- E1 (CrossHair) driver
def run_crosshair(name, file, func, timeout_s=60, per_path_timeout=None, bounds="", expect="confirmed"):
    """One CrossHair condition.  Verdicts: held (confirmed over all paths), violated (counterexample,
    replayed by calling the harness function concretely), inconclusive."""
    t0 = time.time()
    path = os.path.join(VERIF, "crosshair", file)
    src = open(path).read().splitlines()
    line = None
    for i, l in enumerate(src):
        if l.startswith("def %s(" % func):
            line = i + 2
            break
    if line is None:
        return dict(name=name, engine="crosshair", harness_errors=["no function %s in %s" % (func, file)], violations=[],
                    inconclusive=[], claims={}, n_claims=0, vacuous=True, wall_s=0, paths=0, queries=0, solver_s=0)
    env = dict(os.environ, PYTHONPATH=VERIF + ":" + REPO, PYTHONHASHSEED="0")
    cmd = [sys.executable, "-m", "crosshair", "check", "--report_all", "--per_condition_timeout", str(timeout_s),
           "--analysis_kind", "PEP316"]
    if per_path_timeout:
        cmd += ["--per_path_timeout", str(per_path_timeout)]
    cmd.append("%s:%d" % (path, line))
    try:
        pr = subprocess.run(cmd, capture_output=True, text=True, env=env, timeout=timeout_s * 3 + 60, cwd=os.path.join(VERIF, "crosshair"))
        out = pr.stdout + pr.stderr
    except subprocess.TimeoutExpired:
        out = "TIMEOUT"
    res = dict(name=name, engine="crosshair", bounds=bounds, functions=["%s:%s" % (file, func)], raw=out[-800:], stubs=[])
    verdict = "inconclusive"
    cex = None
    if "Confirmed over all paths" in out:
        verdict = "held"
    elif "error: " in out or "false when calling" in out.lower() or "raises" in out.lower() and "when calling" in out:
        m = re.search(r"when calling (.*?)(?: \(which|$)", out, re.S | re.M)
        cex = m.group(1).strip() if m else out[-300:]
        verdict = "violated"
    res["claims"] = {func: dict(held=int(verdict == "held"), violated=int(verdict == "violated"),
                                inconclusive=int(verdict == "inconclusive"), solver_s=0.0)}
    res["n_claims"] = 1
    res["violations"], res["unreproduced"] = [], []
    if verdict == "violated":
        ok, detail = _replay_crosshair(path, cex)
        if ok:
            os.makedirs(REPLAY, exist_ok=True)
            rp = os.path.join(REPLAY, re.sub(r"[^A-Za-z0-9_.-]+", "_", name) + ".json")
            json.dump(dict(obligation=name, call=cex, detail=detail, how="PYTHONPATH=/verif:/repo python -c 'from crosshair_harness import *; %s'" % cex),
                      open(rp, "w"), indent=1)
            res["violations"].append(dict(claim=func, witness=cex, detail=detail, replay=rp))
        else:
            res["unreproduced"].append(dict(claim=func, witness=cex, detail=detail))
    res["inconclusive"] = [func] if verdict == "inconclusive" else []
    res["harness_errors"] = []
    res["vacuous"] = False
    res["paths"] = 1
    res["queries"] = 0
    res["solver_s"] = 0.0
    res["wall_s"] = round(time.time() - t0, 2)
    res["samples"] = [dict(condition="%s:%s" % (file, func), verdict=verdict, counterexample=cex)]
    return res


def _replay_crosshair(path, call):
    """Call the harness function concretely in a fresh interpreter and evaluate its postcondition."""
    mod = os.path.splitext(os.path.basename(path))[0]
    code = ("import sys; sys.path.insert(0, %r); sys.path.insert(0, %r); import %s as M\n"
            "from %s import *\n"
            "import inspect\n"
            "call = %r\n"
            "fname = call.split('(')[0]\n"
            "f = getattr(M, fname)\n"
            "post = [l.split('post:',1)[1].strip() for l in (f.__doc__ or '').splitlines() if 'post:' in l]\n"
            "try:\n"
            "    _ = eval(call)\n"
            "except Exception as ex:\n"
            "    raises = [l for l in (f.__doc__ or '').splitlines() if 'raises:' in l]\n"
            "    ok = any(type(ex).__name__ in l for l in raises)\n"
            "    print('REPLAY', 'PASS' if ok else 'FAIL', 'raised', type(ex).__name__, ex); sys.exit(0)\n"
            "ok = all(eval(p) for p in post)\n"
            "print('REPLAY', 'PASS' if ok else 'FAIL', 'returned', repr(_)[:200])\n") % (os.path.dirname(path), REPO, mod, mod, call)
    try:
        pr = subprocess.run([sys.executable, "-c", code], capture_output=True, text=True, timeout=120,
                            env=dict(os.environ, PYTHONPATH=VERIF + ":" + REPO))
    except subprocess.TimeoutExpired:
        return False, "replay timed out"
    out = pr.stdout + pr.stderr
    if "REPLAY FAIL" in out:
        return True, out.strip()[-300:]
    return False, out.strip()[-300:]


def run_z3_enum(name, lo, hi, fn, describe=None, bounds="", functions=()):
    """Finite-domain obligation: z3 enumerates every integer model of lo <= i < hi (blocking clauses until unsat);
    ``fn(i)`` runs the real code natively and returns (ok, detail).  The solver's final ``unsat`` certifies that the
    enumeration is exhaustive."""
    import z3

    t0 = time.time()
    i = z3.Int("i")
    s = z3.Solver()
    s.add(i >= lo, i < hi)
    seen, bad, nq = [], [], 0
    while True:
        nq += 1
        r = s.check()
        if str(r) != "sat":
            break
        v = s.model()[i].as_long()
        seen.append(v)
        try:
            ok, detail = fn(v)
        except Exception as ex:  # noqa: BLE001
            ok, detail = False, "%s: %s" % (type(ex).__name__, ex)
        if not ok:
            bad.append((v, detail))
        s.add(i != v)
    exhaustive = str(r) == "unsat" and sorted(seen) == list(range(lo, hi))
    res = dict(name=name, engine="z3-enumeration", bounds=bounds, functions=list(functions), stubs=[], paths=len(seen), queries=nq, solver_s=0.0,
               claims={}, violations=[], unreproduced=[], inconclusive=[], harness_errors=[], vacuous=False, n_claims=len(seen), validated=len(seen))
    for v in seen:
        nm = "entry[%d]%s" % (v, (":" + describe(v)) if describe else "")
        failed = [d for (b, d) in bad if b == v]
        res["claims"][nm] = dict(held=int(not failed), violated=int(bool(failed)), inconclusive=0, solver_s=0.0)
        if failed:
            # replay: run the native check once more
            try:
                ok2, d2 = fn(v)
            except Exception as ex:  # noqa: BLE001
                ok2, d2 = False, "%s: %s" % (type(ex).__name__, ex)
            if not ok2:
                os.makedirs(REPLAY, exist_ok=True)
                rp = os.path.join(REPLAY, re.sub(r"[^A-Za-z0-9_.-]+", "_", "%s__%s" % (name, nm))[:150] + ".json")
                json.dump(dict(obligation=name, claim=nm, witness=dict(i=v), detail=d2), open(rp, "w"), indent=1)
                res["violations"].append(dict(claim=nm, witness=dict(i=v), detail=str(d2)[:300], replay=rp))
            else:
                res["unreproduced"].append(dict(claim=nm, witness=dict(i=v), detail=str(failed[0])[:200]))
    if not exhaustive:
        res["harness_errors"].append("enumeration not exhaustive: solver said %s after %d models" % (r, len(seen)))
    res["samples"] = [dict(index=v, entry=(describe(v) if describe else None), verdict="held" if v not in [b for b, _ in bad] else "violated") for v in seen[:3]]
    res["exhaustive"] = exhaustive
    res["wall_s"] = round(time.time() - t0, 2)
    return res


# ----------------------------------------------------------------------------- property runner
def _worker(args):
    pid, obname, modname, tier, seed = args
    t0 = time.time()
    try:
        import importlib

        mod = importlib.import_module(modname)
        for name, fn in mod.obligations(tier, seed):
            if name == obname:
                r = fn()
                r.setdefault("name", obname)
                return r
        return dict(name=obname, harness_errors=["obligation not found"], violations=[], inconclusive=[], claims={}, n_claims=0,
                    vacuous=True, wall_s=0)
    except BaseException as ex:  # noqa: BLE001
        return dict(name=obname, harness_errors=["%s: %s\n%s" % (type(ex).__name__, ex, traceback.format_exc()[-1500:])],
                    violations=[], inconclusive=[], claims={}, n_claims=0, vacuous=True, wall_s=round(time.time() - t0, 2))


HARD_TIMEOUT_S = {"quick": 420, "thorough": 3000}
MEM_LIMIT_BYTES = 8 * 2 ** 30


def _child(args, conn):
    try:
        import resource

        resource.setrlimit(resource.RLIMIT_AS, (MEM_LIMIT_BYTES, MEM_LIMIT_BYTES))
    except Exception:  # noqa: BLE001
        pass
    try:
        r = _worker(args)
    except BaseException as ex:  # noqa: BLE001
        r = dict(name=args[1], harness_errors=["worker died: %s: %s" % (type(ex).__name__, ex)], violations=[], inconclusive=[], claims={},
                 n_claims=0, vacuous=True, wall_s=0)
    try:
        conn.send(r)
    except Exception as ex:  # noqa: BLE001
        conn.send(dict(name=args[1], harness_errors=["result not sendable: %s" % ex], violations=[], inconclusive=[], claims={}, n_claims=0,
                       vacuous=True, wall_s=0))
    conn.close()


def _run_pool(tasks, procs, hard_timeout_s):
    """One process per obligation, at most ``procs`` at a time, hard wall-clock and memory limits.
    An obligation that exceeds a limit is *inconclusive* (budget), never a pass and never a violation."""
    ctx = mp.get_context("fork")
    pending = list(tasks)
    running = []
    results = {}
    while pending or running:
        while pending and len(running) < procs:
            t = pending.pop(0)
            pc, cc = ctx.Pipe(duplex=False)
            p = ctx.Process(target=_child, args=(t, cc), daemon=True)
            p.start()
            cc.close()
            running.append((t, p, pc, time.time()))
        time.sleep(0.05)
        still = []
        for t, p, pc, t0 in running:
            got = None
            if pc.poll():
                try:
                    got = pc.recv()
                except EOFError:
                    got = dict(name=t[1], budget_exceeded="worker closed its pipe without a result", violations=[], inconclusive=["<whole obligation>"],
                               claims={}, n_claims=0, vacuous=False, harness_errors=[], wall_s=round(time.time() - t0, 1))
                p.join(5)
            elif not p.is_alive():
                got = dict(name=t[1], budget_exceeded="worker exited without a result (memory limit %d GiB?)" % (MEM_LIMIT_BYTES // 2 ** 30),
                           violations=[], inconclusive=["<whole obligation>"], claims={}, n_claims=0, vacuous=False, harness_errors=[],
                           wall_s=round(time.time() - t0, 1))
            elif time.time() - t0 > hard_timeout_s:
                p.kill()
                p.join(5)
                got = dict(name=t[1], budget_exceeded="hard wall-clock limit %ds" % hard_timeout_s, violations=[], inconclusive=["<whole obligation>"],
                           claims={}, n_claims=0, vacuous=False, harness_errors=[], wall_s=round(time.time() - t0, 1))
            if got is None:
                # nothing yet (a result that arrives between the checks above is picked up on the next round)
                still.append((t, p, pc, t0))
            else:
                results[t[1]] = got
        running = still
    return [results[t[1]] for t in tasks]


def load_known():
    p = os.path.join(VERIF, "known_findings.json")
    if not os.path.exists(p):
        return []
    return json.load(open(p)).get("findings", [])


def _match_known(known, pid, obname, claim):
    for k in known:
        if k.get("property") != pid or k.get("status") != "open":
            continue
        if re.fullmatch(k.get("obligation", ".*"), obname) and re.fullmatch(k.get("claim", ".*"), claim):
            return k
    return None


def run_property(pid, modname, tier="quick", seed=0, level="model_checking", procs=None, only=None, technique="",
                 assumptions=()):
    """Run all obligations of a property in parallel, write evidence, print verdict lines, return exit code."""
    t0 = time.time()
    import importlib

    mod = importlib.import_module(modname)
    obs = [n for n, _ in mod.obligations(tier, seed)]
    if only:
        obs = [o for o in obs if re.search(only, o)]
    procs = procs or min(16, max(1, len(obs)))
    hard = HARD_TIMEOUT_S.get(tier, 900)
    results = _run_pool([(pid, o, modname, tier, seed) for o in obs], procs, hard)
    known = load_known()
    n_viol = 0
    lines = []
    known_hit = {}
    harness_err = []
    for r in results:
        fam_seen = set()
        for v in r.get("violations", []):
            k = _match_known(known, pid, r["name"], v["claim"])
            if k is not None:
                known_hit.setdefault(k["id"], (k, []))[1].append("%s:%s" % (r["name"], v["claim"]))
                v["known_finding"] = k["id"]
            else:
                n_viol += 1
                fam = re.sub(r"\[[^\]]*\]$", "", v["claim"])  # array claims: one line per family, all recorded in the evidence
                if fam in fam_seen:
                    continue
                fam_seen.add(fam)
                lines.append("VIOLATION property=%s replay=%s" % (pid, v["replay"]))
                lines.append("  obligation=%s claim=%s witness=%s %s" % (r["name"], v["claim"], json.dumps(v["witness"])[:300], (v.get("detail") or "")[:200]))
        for e in r.get("harness_errors", []):
            harness_err.append("%s: %s" % (r["name"], e))
        if r.get("vacuous") and not r.get("harness_errors"):
            harness_err.append("%s: vacuous (no path reached a claim)" % r["name"])
    for kid, (k, where) in known_hit.items():
        lines.append("KNOWN-FINDING: property=%s %s [%s; seen at %s]" % (pid, k["what"], kid, ", ".join(sorted(set(where))[:4])))
    # evidence
    n_ob = sum(len(r.get("claims", {})) for r in results)
    n_dis = sum(1 for r in results for c, v in r.get("claims", {}).items() if v["held"] and not v["violated"] and not v["inconclusive"])
    incon = ["%s:%s" % (r["name"], c) for r in results for c in r.get("inconclusive", [])]
    unrep = ["%s:%s" % (r["name"], u["claim"]) for r in results for u in r.get("unreproduced", [])]
    funcs = sorted(set(f for r in results for f in r.get("functions", [])))
    samples = []
    for r in results:
        for s in r.get("samples", [])[:1]:
            samples.append(dict(obligation=r["name"], **s))
    cov = dict(
        states=sum(r.get("paths", 0) for r in results),
        transitions=sum(r.get("queries", 0) for r in results),
        traces_validated_against_impl=sum(r.get("validated", 0) for r in results),
        replays=sum(len(r.get("violations", [])) + len(r.get("unreproduced", [])) for r in results),
        samples=samples[:12] or [dict(note="no samples")],
        obligations=n_ob,
        discharged=n_dis,
        evaluations=sum(r.get("n_claims", 0) for r in results),
        distinct_nontrivial=n_ob,
        rule="one obligation = one named claim of one harness configuration; a claim is counted once per obligation however many paths re-check it; "
             "discharged = solver returned unsat for its negation on every explored path",
        functions_encoded=funcs,
        bounds={r["name"]: r.get("bounds", "") for r in results},
        stubs=sorted(set(s for r in results for s in r.get("stubs", []))),
        solver_time_s=round(sum(r.get("solver_s", 0) for r in results), 2),
        paths_by_status={r["name"]: r.get("path_status", {}) for r in results},
        alternatives=dict(refuted=sum(r.get("refuted", 0) for r in results), unrefuted=sum(r.get("unrefuted", 0) for r in results),
                          left_in_queue=sum(r.get("left", 0) for r in results)),
        inconclusive=incon,
        unreproduced=unrep,
        known_findings=sorted(known_hit),
        harness_errors=harness_err[:10],
        per_obligation={r["name"]: dict(wall_s=r.get("wall_s"), paths=r.get("paths"), queries=r.get("queries"), claims=len(r.get("claims", {})))
                        for r in results},
        technique=technique,
        second_solver=dict(solver="cvc5 1.4 on the SMT-LIB2 export of claims z3 answered unsat (budget per obligation: env VERIF_CVC5_PER_OBLIGATION)",
                           agreed_unsat=sum(r.get("cvc5", {}).get("unsat", 0) for r in results),
                           disagreed_sat=sum(r.get("cvc5", {}).get("sat", 0) for r in results),
                           no_answer=sum(r.get("cvc5", {}).get("unknown", 0) for r in results),
                           time_s=round(sum(r.get("cvc5_s", 0) for r in results), 1)),
    )
    ev = dict(property_id=pid, tier=tier, seed=int(seed), level=level, coverage=cov,
              assumptions=list(assumptions), wall_s=round(time.time() - t0, 2), violations=n_viol)
    os.makedirs(EVID, exist_ok=True)
    with open(os.path.join(EVID, pid + ".json"), "w") as f:
        json.dump(ev, f, indent=1, default=_jsonable)
    for l in lines:
        print(l)
    print("%s tier=%s obligations=%d discharged=%d inconclusive=%d unreproduced=%d violations=%d known=%d paths=%d queries=%d solver=%.1fs wall=%.1fs"
          % (pid, tier, n_ob, n_dis, len(incon), len(unrep), n_viol, len(known_hit), cov["states"], cov["transitions"], cov["solver_time_s"], ev["wall_s"]))
    if harness_err:
        seen_e = set()
        for e in harness_err:
            k = e[:60] + e[-120:]
            if k in seen_e or len(seen_e) >= 4:
                continue
            seen_e.add(k)
            print("HARNESS-ERROR %s" % (e[:100] + " ... " + e[-500:] if len(e) > 600 else e))
    if n_viol:
        return 1
    if harness_err:
        return 2
    return 0
