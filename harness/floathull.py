"""Independent float64 reference for convex polyhedra given only their vertices (no coxeter, no qhull):
facets by brute force over supporting planes, then exact-formula integrals over a fan of each facet.

Used by the finite-domain obligations (every tabulated solid): the solver enumerates the entries, the real
code runs natively and is compared with this reference at a 1e-9 relative tolerance."""
import numpy as np


def facets(V, tol=1e-9):
    """List of facets (vertex indices, counter-clockwise seen from outside) of conv(V); V must be in convex position."""
    V = np.asarray(V, dtype=float)
    n = len(V)
    c = V.mean(axis=0)
    scale = np.abs(V - c).max()
    seen = {}
    for i in range(n):
        for j in range(i + 1, n):
            e = V[j] - V[i]
            N = np.cross(e, V - V[i])  # normals of the planes through i, j, k for all k
            ln = np.linalg.norm(N, axis=1)
            ok = ln > tol * scale * scale
            ok[: j + 1] = False  # k > j
            if not ok.any():
                continue
            Nn = N[ok] / ln[ok][:, None]
            D = (V - V[i]) @ Nn.T  # (n, m): signed distances of all points to each candidate plane
            pos = (D > tol * scale).any(axis=0)
            neg = (D < -tol * scale).any(axis=0)
            for col in np.nonzero(~(pos & neg))[0]:
                nrm = Nn[col] if not pos[col] else -Nn[col]
                on = tuple(np.nonzero(np.abs(D[:, col]) <= tol * scale)[0])
                if len(on) >= 3 and on not in seen:
                    seen[on] = nrm
    out = []
    for on, nrm in seen.items():
        P = V[list(on)]
        m = P.mean(axis=0)
        u = P[0] - m
        u /= np.linalg.norm(u)
        w = np.cross(nrm, u)
        ang = np.arctan2((P - m) @ w, (P - m) @ u)
        out.append(([on[k] for k in np.argsort(ang)], nrm))
    return out


def measures(V):
    """volume, surface area, centroid, inertia tensor about the origin (unit density), per-facet (area, centroid)."""
    V = np.asarray(V, dtype=float)
    F = facets(V)
    vol = 0.0
    area = 0.0
    first = np.zeros(3)
    second = np.zeros((3, 3))  # integral of x x^T
    per_face = []
    for idx, nrm in F:
        a0 = V[idx[0]]
        fa = 0.0
        fc = np.zeros(3)
        for k in range(1, len(idx) - 1):
            b, c = V[idx[k]], V[idx[k + 1]]
            ta = 0.5 * np.linalg.norm(np.cross(b - a0, c - a0))
            fa += ta
            fc += ta * (a0 + b + c) / 3
            d = np.dot(a0, np.cross(b, c))  # 6 x signed volume of the tetrahedron (0, a0, b, c)
            vol += d / 6
            first += d / 24 * (a0 + b + c)
            s = a0 + b + c
            second += d / 120 * (np.outer(a0, a0) + np.outer(b, b) + np.outer(c, c) + np.outer(s, s))
        area += fa
        per_face.append((sorted(idx), fa, fc / fa))
    cen = first / vol
    I = np.trace(second) * np.eye(3) - second
    return dict(volume=vol, surface_area=area, centroid=cen, inertia=I, faces=per_face, nfacets=len(F))
