"""C11 - rounded shapes obey Steiner formulas; curvature descriptors match definitions.

Spheropolygon: core = triangle / quadrilateral with all in-plane coordinates free, rounding radius
r >= 0 free.  Spheropolyhedron / ConvexPolyhedron descriptors: base solids placed by free scale and
translation and rational rotations, r free.  ``arccos`` is an opaque function symbol (canonical
argument, range [0, pi], arccos(-x) = pi - arccos(x)): what is decided is that the code's dihedral
argument, edge set (each edge once), edge lengths and coefficients are the definition's.
"""
from fractions import Fraction as F

from . import common, oracles as O, shapes as SH
from . import C04
from .common import run_e2

LEVEL = "model_checking"
TECHNIQUE = "symbolic execution of the real Steiner / curvature getters with free rounding radius and free placement or coordinates; identities decided by z3 with arccos uninterpreted"
ASSUMPTIONS = [
    "A1 reals not floats; the numerical value of arccos is outside (uninterpreted function with congruence, range and reflection facts)",
    "qhull / kabsch contract stubs",
]


def sphero_polygon_body(n):
    def body(H, V):
        from coxeter.shapes import ConvexSpheropolygon

        pts = [[V["x%d" % i], V["y%d" % i], 0 * V["x0"]] for i in range(n)]
        r = V["r"]
        s = ConvexSpheropolygon(H.arr(pts), r)
        verts = [[s.vertices[i][k] for k in range(3)] for i in range(n)]
        nrm = [s.normal[k] for k in range(3)]
        m = O.polygon_measures(verts, nrm)
        A = m["A"]
        absA = A if A >= 0 else -A
        P = 0
        for i in range(n):
            d = O.sub(verts[(i + 1) % n], verts[i])
            P = P + H.sqrt(O.dot(d, d))
        H.claim_eq("area=A+P*r+pi*r^2", s.area, absA + P * r + H.pi * r * r)
        H.claim_eq("perimeter=P+2*pi*r", s.perimeter, P + 2 * H.pi * r)
        H.claim("signed_area_sign", s.signed_area > 0)

    return body


def _edges(facets):
    seen = {}
    for fi, f in enumerate(facets):
        for i in range(len(f)):
            e = frozenset((f[i], f[(i + 1) % len(f)]))
            seen.setdefault(e, []).append(fi)
    return [(tuple(sorted(e)), fs) for e, fs in seen.items()]


def polyhedron_body(shape, quat, rounded):
    base = SH.CONVEX[shape]
    facets = SH.convex_facets(base)

    def body(H, V):
        import coxeter.shapes as S

        P = SH.place(base, quat, V["s"], [V["tx"], V["ty"], V["tz"]])
        r = V["r"] if rounded else None
        tris = [(P[a], P[b], P[c]) for f in facets for a, b, c in SH.fan(f)]
        Vol, _, _ = O.polyhedron_moments(tris)
        nus, Stot = [], 0
        for f in facets:
            vs = [P[i] for i in f]
            N = O.cross(O.sub(vs[1], vs[0]), O.sub(vs[2], vs[0]))
            nu = [c / H.sqrt(O.dot(N, N)) for c in N]
            nus.append(nu)
            Stot = Stot + O.polygon_measures(vs, nu)["A"]
        Msum = 0  # sum_e L_e (pi - phi_e)
        for (a, b), (f1, f2) in _edges(facets):
            d = O.sub(P[a], P[b])
            L = H.sqrt(O.dot(d, d))
            phi = H.special("arccos", -O.dot(nus[f1], nus[f2]))
            phiv = phi.value() if hasattr(phi, "value") else phi
            Msum = Msum + L * (H.pi - phiv)
        M = Msum / (8 * H.pi)
        if rounded:
            s = S.ConvexSpheropolyhedron(H.arr(P), r)
            H.claim_eq("volume=V+S*r+4*pi*M*r^2+4/3*pi*r^3", s.volume, Vol + Stot * r + 4 * H.pi * M * r * r + 4 * H.pi * r ** 3 / 3)
            H.claim_eq("surface_area=S+8*pi*M*r+4*pi*r^2", s.surface_area, Stot + 8 * H.pi * M * r + 4 * H.pi * r * r)
            H.claim_eq("mean_curvature=M+r", s.mean_curvature, M + r)
        else:
            s = S.ConvexPolyhedron(H.arr(P))
            H.claim_eq("mean_curvature", s.mean_curvature, M)
            H.claim_eq("tau", s.tau, 4 * H.pi * M * M / Stot)
            H.claim_eq("asphericity", s.asphericity, M * Stot / (3 * Vol))
            H.claim_eq("iq", s.iq, 36 * H.pi * Vol * Vol / (Stot ** 3))
            # a dihedral angle through the public method, identified through the faces it joins
            got = [frozenset(int(i) for i in f) for f in s.faces]
            (a, b), (f1, f2) = _edges(facets)[0]
            i, j = got.index(frozenset(facets[f1])), got.index(frozenset(facets[f2]))
            phi = s.get_dihedral(i, j)
            want = H.special("arccos", -O.dot(nus[f1], nus[f2]))
            H.claim_eq("dihedral", phi.value() if hasattr(phi, "value") else phi, want.value() if hasattr(want, "value") else want)

    return body


def obligations(tier, seed):
    from symx.loader import functions_encoded
    import coxeter.shapes as S

    obs = []
    for n in ((3, 4) if tier == "quick" else (3, 4, 5)):
        names = ["x%d" % i for i in range(n)] + ["y%d" % i for i in range(n)] + ["r"]

        def pre(V, n=n):
            from symx.core import sym_and, sym_or

            cs = C04._pre_simple(V, n)
            pos = sym_and(*[C04._orient(V, i, (i + 1) % n, (i + 2) % n) > 0 for i in range(n)])
            neg = sym_and(*[C04._orient(V, i, (i + 1) % n, (i + 2) % n) < 0 for i in range(n)])
            return cs + [sym_or(pos, neg), V["r"] >= 0]

        import math

        first = {"r": F(1, 2)}
        for i in range(n):
            ang = 2 * math.pi * i / n + 0.3
            first["x%d" % i] = F(round(7 * math.cos(ang)), 3)
            first["y%d" % i] = F(round(7 * math.sin(ang)), 3)
        nm = "C11/spheropolygon.n%d" % n
        obs.append((nm, (lambda nm=nm, names=names, n=n, pre=pre, first=first: run_e2(
            nm, names, sphero_polygon_body(n), pre=pre, first_sample=first, max_paths=(8 if tier == "quick" else 40), budget_s=(150 if tier == "quick" else 900),
            functions=functions_encoded([S.ConvexSpheropolygon.signed_area.fget, S.ConvexSpheropolygon.area.fget, S.ConvexSpheropolygon.perimeter.fget]),
            stubs=["qhull 2-D / kabsch contract stubs"],
            bounds="core polygon n=%d with all %d coordinates free (convex position), rounding radius r >= 0 free; path budget" % (n, 2 * n)))))
    quick = [("tetra", "r1"), ("cube", "id"), ("box", "r2"), ("prism3", "r3"), ("frustum", "id"), ("skew", "r1"), ("octa", "rz90")]
    cfg = quick if tier == "quick" else [(s, q) for s in SH.CONVEX for q in ("id", "r1", "r3")]
    first = dict(s=F(3, 2), tx=F(7, 3), ty=F(-5, 2), tz=F(11, 4), r=F(2, 5))
    for sh, q in cfg:
        for rounded in (True, False):
            nm = "C11/%s.%s.%s" % ("spheropolyhedron" if rounded else "polyhedron", sh, q)
            names = ["s", "tx", "ty", "tz"] + (["r"] if rounded else [])
            fl = [S.ConvexSpheropolyhedron.volume.fget, S.ConvexSpheropolyhedron.surface_area.fget, S.ConvexSpheropolyhedron.mean_curvature.fget] if rounded else \
                [S.ConvexPolyhedron.mean_curvature.fget, S.ConvexPolyhedron.tau.fget, S.ConvexPolyhedron.asphericity.fget, S.Polyhedron.get_dihedral]
            obs.append((nm, (lambda nm=nm, names=names, sh=sh, q=q, rounded=rounded, fl=fl: run_e2(
                nm, names, polyhedron_body(sh, q, rounded), positive=["s"], pre=(lambda V: [V["r"] >= 0]) if rounded else None,
                first_sample={k: v for k, v in first.items() if k in names}, max_paths=(2 if tier == "quick" else 8), budget_s=(150 if tier == "quick" else 900),
                functions=functions_encoded(fl), stubs=["qhull / kabsch contract stubs", "arccos -> uninterpreted function"],
                bounds="core %s placed by free scale, free translation, rotation %s%s; path budget" % (sh, q, ", rounding radius r >= 0 free" if rounded else "")))))
    return obs
