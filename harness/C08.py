"""C08 - size setters hit their target by pure similarity; bad targets are refused.

Every settable property of every shape class is enumerated by reflection at run time.  For each,
the real setter runs with a *free real target* v (either sign): the code's own guards fork the
path engine, so v > 0 and v <= 0 are both explored.  Claims for v > 0: the property reads back as
v, all vertices / radii / semi-axes are multiplied by one positive factor, normals and the centre
of curved shapes are unchanged (centroid/center setters: one common translation).  For v <= 0 the
call must raise ValueError and leave every field as it was - a path ending in non-finite,
collapsed or sign-flipped geometry is a violation.
"""
from fractions import Fraction as F

from . import common, oracles as O, shapes as SH
from .common import run_e2

LEVEL = "model_checking"
TECHNIQUE = "symbolic execution of every setter (found by reflection) with a free real target; z3 decides read-back, similarity and refusal claims on all paths"
ASSUMPTIONS = [
    "A1 reals not floats; NaN targets are outside the model",
    "polytopes are concrete rational base shapes in general position (off-origin, tilted); curved shapes have all parameters free",
    "a single semi-axis (Ellipse.a/b, Ellipsoid.a/b/c) and the rounding radius of a spheropolytope set that one parameter only (read-back + everything else unchanged is claimed, not a uniform scaling); rounding radius 0 is legal",
    "setters whose getter is unimplemented / needs miniball on this class are reported as not settable and excluded",
]
OFF = [F(3), F(-2), F(5)]
SIZE_DIM = {"volume": 3, "surface_area": 2, "area": 2}


# attributes that set one parameter only (index into the state's length list)
SINGLE = {"Ellipse": {"a": 0, "b": 1}, "Ellipsoid": {"a": 0, "b": 1, "c": 2}, "ConvexSpheropolygon": {"radius": -1}, "ConvexSpheropolyhedron": {"radius": -1}}


def _mk(kind, H):
    """Build the base object of a class from concrete rational data (through the real constructor)."""
    import coxeter.shapes as S
    import numpy as rnp

    if kind == "Polygon":
        v = SH.place([(x, y, 0) for x, y in SH.POLYGONS["arrow"]], "r1", 1, OFF)
        return S.Polygon(H.arr([[H.num(c) for c in p] for p in v]), test_simple=False)
    if kind == "Polygon_cw":
        v = SH.place([(x, y, 0) for x, y in SH.POLYGONS["arrow"]], "r1", 1, OFF)
        nrm = [-x for x in O.matvec(O.rot_from_quat(*SH.QUATS["r1"]), [F(0), F(0), F(1)])]
        return S.Polygon(H.arr([[H.num(c) for c in p] for p in v]), normal=H.arr([H.num(x) for x in nrm]), test_simple=False)
    if kind == "Polygon_reflex_first":
        a = SH.POLYGONS["arrow"]
        v = SH.place([(x, y, 0) for x, y in a[1:] + a[:1]], "r2", 1, OFF)
        return S.Polygon(H.arr([[H.num(c) for c in p] for p in v]), test_simple=False)
    if kind == "ConvexPolygon":
        v = SH.place([(x, y, 0) for x, y in SH.POLYGONS["quad"]], "r2", 1, OFF)
        return S.ConvexPolygon(H.arr([[H.num(c) for c in p] for p in v]))
    if kind == "ConvexSpheropolygon":
        v = [(x + 2, y - 1, 0) for x, y in SH.POLYGONS["quad"]]
        return S.ConvexSpheropolygon(H.arr([[H.num(c) for c in p] for p in v]), H.num(F(1, 2)))
    if kind == "Polyhedron":
        base, faces = SH.nonconvex("L_prism")
        v = SH.place(base, "r1", 1, OFF)
        return S.Polyhedron(H.arr([[H.num(c) for c in p] for p in v]), [rnp.array(f) for f in faces], faces_are_convex=True)
    if kind == "ConvexPolyhedron":
        v = SH.place(SH.CONVEX["skew"], "r2", 1, OFF)
        return S.ConvexPolyhedron(H.arr([[H.num(c) for c in p] for p in v]))
    if kind == "ConvexSpheropolyhedron":
        v = SH.place(SH.CONVEX["pyramid"], "id", 1, OFF)  # vertex mean != centroid
        return S.ConvexSpheropolyhedron(H.arr([[H.num(c) for c in p] for p in v]), H.num(F(1, 2)))
    raise KeyError(kind)


def _mk_curved(kind, H, V):
    import coxeter.shapes as S

    c = [V["cx"], V["cy"], V["cz"]]
    if kind == "Circle":
        return S.Circle(V["r"], c)
    if kind == "Sphere":
        return S.Sphere(V["r"], c)
    if kind == "Ellipse":
        return S.Ellipse(V["a"], V["b"], c)
    if kind == "Ellipsoid":
        return S.Ellipsoid(V["a"], V["b"], V["c"], c)
    raise KeyError(kind)


CURVED = {"Circle": ["r"], "Sphere": ["r"], "Ellipse": ["a", "b"], "Ellipsoid": ["a", "b", "c"]}
POLY = ["Polygon", "ConvexPolygon", "ConvexSpheropolygon", "Polyhedron", "ConvexPolyhedron", "ConvexSpheropolyhedron",
        # polygons whose vertices run clockwise about their stored normal (negative signed area): explicit opposite normal / reflex first corner
        "Polygon_cw", "Polygon_reflex_first"]


def settable(kind):
    import coxeter.shapes as S

    cls = getattr(S, kind.split("_")[0])
    out = []
    for n in sorted(dir(cls)):
        a = getattr(cls, n, None)
        if isinstance(a, property) and a.fset is not None:
            out.append(n)
    return out


def _state(s):
    """Numeric state of a shape: lists of scalars that scale like a length, and invariants."""
    lengths, fixed = [], []
    core = getattr(s, "polygon", None) or getattr(s, "polyhedron", None) or s
    if hasattr(core, "_vertices"):
        for row in core._vertices:
            lengths.extend(list(row))
    for nm in ("_radius", "_a", "_b", "_c"):
        if hasattr(s, nm):
            lengths.append(getattr(s, nm))
    if hasattr(core, "_normal"):
        fixed.extend(list(core._normal))
    if hasattr(s, "_centroid") and not hasattr(core, "_vertices"):
        fixed.extend(list(s._centroid))
    return lengths, fixed


def _curved_getters(s):
    """Every public property of a curved shape that can be read (name -> value); reading them also fills any cache."""
    out = {}
    for n in sorted(dir(type(s))):
        if n.startswith("_") or not isinstance(getattr(type(s), n, None), property):
            continue
        try:
            out[n] = getattr(s, n)
        except (NotImplementedError, RuntimeError, AttributeError, ImportError):
            pass
    return out


def _fresh_curved(s):
    import coxeter.shapes as S

    k = type(s).__name__
    c = list(s.centroid)
    if k in ("Circle", "Sphere"):
        return getattr(S, k)(s.radius, c)
    if k == "Ellipse":
        return S.Ellipse(s.a, s.b, c)
    return S.Ellipsoid(s.a, s.b, s.c, c)


def make_body(kind, prop):
    inner = _make_body(kind, prop)

    def body(H, V):
        from symx import core as sc

        try:
            return inner(H, V)
        except sc.Abort as ex:
            if "miniball" in str(ex):
                # read-back would need the smallest enclosing ball of a symbolic point set (third-party code, modelled for concrete points only)
                H.ok("not_settable_here", "needs miniball on symbolic points")
                return
            raise

    return body


def _make_body(kind, prop):
    is_center = prop in ("center", "centroid")

    def body(H, V):
        from symx import core as sc

        s = _mk_curved(kind, H, V) if kind in CURVED else _mk(kind, H)
        try:
            old_val = getattr(s, prop)
        except (NotImplementedError, RuntimeError, AttributeError, ImportError) as ex:
            H.ok("not_settable_here", "%s: %s" % (type(ex).__name__, ex))
            return
        except sc.Abort as ex:
            if "miniball" in str(ex):
                H.ok("not_settable_here", "needs miniball (third-party, behind an opaque stub)")
                return
            raise
        L0, Fx0 = _state(s)
        L0, Fx0 = list(L0), list(Fx0)
        if kind in CURVED:
            _curved_getters(s)  # a user may have looked at anything before assigning: whatever is cached must not go stale
        if is_center:
            t = [V["t0"], V["t1"], V["t2"]]
            setattr(s, prop, H.arr(t))
            got = getattr(s, prop)
            H.claim_all_eq("readback", got, t)
            L1, Fx1 = _state(s)
            if hasattr(getattr(s, "polygon", None) or getattr(s, "polyhedron", None) or s, "_vertices"):
                d = [t[k] - old_val[k] for k in range(3)]
                for i in range(0, len(L0) - (len(L0) % 3), 3):
                    if i + 2 < len(L0) and i // 3 < (len(L0) // 3):
                        pass
                nv = (len(L0) - sum(1 for nm in ("_radius", "_a", "_b", "_c") if hasattr(s, nm))) // 3
                for i in range(nv):
                    for k in range(3):
                        H.claim_eq("translation[v%d,%d]" % (i, k), L1[3 * i + k] - L0[3 * i + k], d[k])
                for j in range(3 * nv, len(L0)):
                    H.claim_eq("radius_unchanged[%d]" % j, L1[j], L0[j])
                H.claim_all_eq("normal_unchanged", Fx1, Fx0)
            else:
                H.claim_all_eq("sizes_unchanged", L1, L0)
            return
        v = V["v"]
        raised = nonfinite = False
        try:
            setattr(s, prop, v)
        except ValueError:
            raised = True
        except ArithmeticError:
            nonfinite = True
        L1, Fx1 = _state(s)
        if not H.symbolic:
            import math

            if any(not math.isfinite(float(x)) for x in L1):
                nonfinite = True
        elif any(isinstance(x, sc.NaNVal) for x in L1):
            nonfinite = True
        single = SINGLE.get(kind, ())
        zero_ok = prop == "radius" and kind.startswith("ConvexSphero")
        if (v < 0) if zero_ok else (v <= 0):
            if raised:
                H.ok("bad_target_refused")
                H.claim_all_eq("unchanged_after_refusal", L1 + Fx1, L0 + Fx0)
            else:
                H.fail("bad_target_refused", "target <= 0 accepted" + (" and geometry became non-finite" if nonfinite else ""))
            return
        if raised or nonfinite:
            H.fail("positive_target_accepted", "raised ValueError" if raised else "non-finite geometry")
            return
        H.ok("positive_target_accepted")
        H.claim_eq("readback", getattr(s, prop), v)
        if kind in CURVED and not (kind == "Ellipsoid" and prop == "surface_area"):
            # after the assignment every public answer is that of a shape freshly built from the current parameters
            # (not for Ellipsoid.surface_area: its scale factor is a root of a quotient of elliptic-integral values, and the
            # comparison of the rescaled integrals does not finish within the budget)
            from .C16 import _same

            _same(H, "as_fresh_shape", _curved_getters(s), _curved_getters(_fresh_curved(s)))
        if prop in single:
            # a single semi-axis / the rounding radius: only that parameter changes (documented meaning of the attribute)
            idx = single[prop]
            for j in range(len(L0)):
                if j != (len(L0) + idx if idx < 0 else idx):
                    H.claim_eq("others_unchanged[%d]" % j, L1[j], L0[j])
            H.claim_all_eq("invariants_unchanged", Fx1, Fx0)
            return
        # one common positive factor
        ref = None
        for j, x in enumerate(L0):
            xs = x if not H.symbolic else sc.Sym._co(x)
            if (H.symbolic and xs.is_const() and xs.as_fraction() != 0) or (H.symbolic and not xs.is_const()) or (not H.symbolic and abs(float(x)) > 1e-9):
                ref = j
                break
        k = L1[ref] / L0[ref]
        H.claim("scale_positive", k > 0)
        for j in range(len(L0)):
            H.claim_eq("similar[%d]" % j, L1[j], k * L0[j])
        H.claim_all_eq("invariants_unchanged", Fx1, Fx0)

    return body


def _ob(kind, prop, tier):
    name = "C08/%s.%s" % (kind, prop)
    is_center = prop in ("center", "centroid")
    names = list(CURVED.get(kind, [])) + (["cx", "cy", "cz"] if kind in CURVED else []) + (["t0", "t1", "t2"] if is_center else ["v"])
    import coxeter.shapes as S
    from symx.loader import functions_encoded

    cls = getattr(S, kind.split("_")[0])
    pr = getattr(cls, prop)
    fns = functions_encoded([pr.fset, pr.fget, cls._rescale])
    first = dict(v=F(7, 3), t0=F(1), t1=F(-4), t2=F(2), r=F(3, 2), a=F(3, 2), b=F(2), c=F(5, 4), cx=F(1), cy=F(-2), cz=F(3))
    first = {k: x for k, x in first.items() if k in names}
    return (name, lambda: run_e2(name, names, make_body(kind, prop), positive=CURVED.get(kind, []), functions=fns, first_sample=first,
                                 max_paths=(12 if tier == "quick" else 40), budget_s=(120 if tier == "quick" else 600),
                                 stubs=["ConvexHull -> exact hull", "rowan.mapping.kabsch -> contract", "lstsq -> exact normal equations", "miniball -> exact smallest enclosing ball of the concrete vertex set (contract)"],
                                 bounds="%s: %s; target %s" % (kind, "all parameters free" if kind in CURVED else "concrete rational base shape (off-origin, tilted)",
                                                                "free translation (3 reals)" if is_center else "free real v of either sign")))


def obligations(tier, seed):
    obs = []
    for kind in list(CURVED) + POLY:
        for prop in settable(kind):
            obs.append(_ob(kind, prop, tier))
    return obs
