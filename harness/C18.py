"""C18 - every tabulated family entry is the solid its name says.

The quantifier is a finite set of table entries, so there is no numeric input for a solver to range
over.  What the technique family contributes here: (i) the entry *index* is a z3 integer constrained
to the family's range; z3 enumerates every model (blocking clauses until ``unsat``), which certifies
that every one of the 290 entries was visited exactly once - the solver as an exhaustive enumerator of
a finite domain; (ii) unknown names / DOIs are *symbolic strings* handled by CrossHair.  On each
enumerated entry the real loader and the real ConvexPolyhedron constructor run natively in float64
and are compared with a reference table written from the literature (V/E/F, unit volume, equal
edges, regular faces, insphere for Catalan solids, science-repository entries against the named
families, iteration order).
"""
import os
import sys

from .common import run_crosshair, run_z3_enum, VERIF

LEVEL = "model_checking"
TECHNIQUE = "z3 model enumeration of the entry index over the finite tables (exhaustive, certified by the final unsat) + CrossHair on symbolic unknown names/DOIs; numerics are the real float64 code vs textbook facts"
ASSUMPTIONS = [
    "finite-domain enumeration by the solver, no symbolic numerics (tolerance 1e-6 relative)",
    "reference V/E/F table written from the literature (notes/reference-solids.md)",
]


def _M():
    sys.path.insert(0, os.path.join(VERIF, "crosshair"))
    import C18_families as M

    return M


def _fam_ob(label, famname, flags, tier):
    def run():
        M = _M()
        fam = getattr(M, famname)
        n = len(fam.names)

        def fn(i):
            ok = M._entry(fam, i, *flags)
            return ok, ("entry %r failed: counts %r" % (fam.names[i], M._counts(fam.get_shape(fam.names[i]))) if not ok else "")

        return run_z3_enum("C18/" + label, 0, n, fn, describe=lambda i: fam.names[i],
                           bounds="all %d entries of %s, enumerated as z3 models; checks: V/E/F%s" % (
                               n, famname, ", unit volume" * flags[0] + ", equal edges" * flags[1] + ", regular faces" * flags[2] + ", insphere" * flags[3]),
                           functions=["coxeter.families.tabulated_shape_family.TabulatedGSDShapeFamily.get_shape", "coxeter.shape_getters.from_gsd_type_shapes",
                                      "coxeter.shapes.ConvexPolyhedron.__init__"])

    return ("C18/" + label, run)


def _science_ob(tier):
    def run():
        M = _M()
        n = len(M.SCIENCE.names)

        def fn(i):
            ok = M._science(i)
            return ok, ("science entry %r (%r) differs from its named family or has wrong counts" % (M.SCIENCE.names[i], M.SCIENCE.data[M.SCIENCE.names[i]].get("name")) if not ok else "")

        return run_z3_enum("C18/science1220869", 0, n, fn, describe=lambda i: M.SCIENCE.names[i],
                           bounds="all %d entries of DOI 10.1126/science.1220869; each compared with the named family it cites" % n)

    return ("C18/science1220869", run)


def _iter_ob(tier):
    def run():
        M = _M()
        fams = [M.PlatonicFamily, M.ArchimedeanFamily, M.CatalanFamily, M.PrismAntiprismFamily, M.PyramidDipyramidFamily, M.JohnsonFamily, M.SCIENCE]

        def fn(k):
            ok = M._iteration(fams[k])
            return ok, ("iteration of family %d does not follow names / get_shape" % k if not ok else "")

        return run_z3_enum("C18/iteration_order", 0, len(fams), fn, describe=lambda k: getattr(fams[k], "__name__", "science1220869"),
                           bounds="iteration yields every name once, in order, with the shape get_shape(name) returns: all 7 tabulated families")

    return ("C18/iteration_order", run)


def obligations(tier, seed):
    obs = [
        _fam_ob("platonic", "PlatonicFamily", (True, True, True, False), tier),
        _fam_ob("archimedean", "ArchimedeanFamily", (True, True, True, False), tier),
        _fam_ob("catalan", "CatalanFamily", (True, False, False, True), tier),
        _fam_ob("johnson", "JohnsonFamily", (False, True, True, False), tier),
        _fam_ob("prism_antiprism", "PrismAntiprismFamily", (False, False, False, False), tier),
        _fam_ob("pyramid_dipyramid", "PyramidDipyramidFamily", (False, False, False, False), tier),
        _science_ob(tier), _iter_ob(tier),
    ]
    for c in ("unknown_name_raises", "unknown_doi_raises") + (("platonic",) if tier == "thorough" else ()):
        obs.append(("C18/E1." + c, (lambda c=c: run_crosshair("C18/E1." + c, "C18_families.py", c, timeout_s=(100 if tier == "quick" else 400),
                                                                bounds="CrossHair condition %s (symbolic str / int)" % c))))
    return obs
