"""C20 - exported mesh files describe exactly the polyhedron.

(i)  CrossHair: ``save`` dispatches each of the seven type strings to its writer and raises
     ValueError for every other (symbolic) string.
(ii) symx: the real writers run on base meshes with mixed face degrees placed by a free scale and
     translation; a symbolic coordinate is printed as a token (``str`` of the scalar), so the
     written text is the real text with tokens in place of decimal numerals.  Independent parsers
     (written here from the format definitions) must recover, at every vertex slot, a token
     denoting the same scalar as the polyhedron's coordinate (term identity decided by z3), the
     same vertex cycles (index base!), and declared counts equal to the data.
(iii) STL: every written triangle normal has a positive component along its face's outward
     normal, the fan triangles of a face add up to the face area, and the triangle vertices are
     the polyhedron's.
(iv) the shape is unchanged by every writer.
Not applicable: the decimal rendering of doubles (``str(numpy.float64)``) - see ASSUMPTIONS; a
supplementary bit-exact read-back on the float64 code at the path samples is reported as
validation, not as a solver claim.
"""
import os
import re
import tempfile
from fractions import Fraction as F
from xml.etree import ElementTree

import copy

from .C16 import _raw, _same
from . import common, oracles as O, shapes as SH
from .C19 import Tokens
from .common import run_e2, run_crosshair

LEVEL = "model_checking"
TECHNIQUE = "symbolic execution of the real writers with token-valued coordinates + independent parsers; coordinate identity decided by z3, index structure compared per path; CrossHair on the save() dispatch"
ASSUMPTIONS = [
    "A1 reals not floats; the decimal text of a double is produced by str(numpy.float64) (shortest round-trip repr), which is outside the encoding: a symbolic coordinate prints as a token",
    "the bit-exact read-back of decimal coordinates is checked only on the float64 code at the path samples (translator validation), magnitudes there ~1e-2..1e1",
    "base meshes: corner-cut cube (degrees 3,4,5), frustum, L prism with triangulated caps; both Polyhedron and ConvexPolyhedron",
]
NUM = r"[-+]?(?:_T\d+|_Q\(\d+,\d+\)|(?:\d+\.?\d*(?:[eE][-+]?\d+)?|\.\d+(?:[eE][-+]?\d+)?))"


def _val(H, tok, ns):
    if tok in ns:
        return ns[tok]
    if tok.startswith("-") and tok[1:] in ns:
        return -ns[tok[1:]]
    m = re.fullmatch(r"_Q\((\d+),(\d+)\)", tok)
    if m:
        return H.num(F(int(m.group(1)), int(m.group(2))))
    return H.num(F(tok)) if H.symbolic else float(tok)


# ---------------------------------------------------------------- independent parsers (text -> vertices tokens, faces)
def parse_obj(text):
    V, Fs = [], []
    for line in text.splitlines():
        p = line.split()
        if not p or p[0].startswith("#"):
            continue
        if p[0] == "v":
            assert len(p) == 4, line
            V.append(p[1:])
        elif p[0] == "f":
            Fs.append([int(x.split("/")[0]) - 1 for x in p[1:]])  # OBJ indices are 1-based
        else:
            raise ValueError("unexpected OBJ record %r" % line)
    return V, Fs, {}


def parse_off(text):
    lines = [l for l in text.splitlines() if l.strip() and not l.strip().startswith("#")]
    assert lines[0].strip() == "OFF", lines[0]
    hdr = lines[1].split()
    nv, nf, ne = int(hdr[0]), int(hdr[1]), int(hdr[2])  # the OFF header is three integers
    V = [l.split() for l in lines[2:2 + nv]]
    Fs = []
    for l in lines[2 + nv:2 + nv + nf]:
        p = l.split()
        k = int(p[0])
        assert len(p) == k + 1, l
        Fs.append([int(x) for x in p[1:]])
    assert len(lines) == 2 + nv + nf, "trailing records"
    return V, Fs, dict(nv=nv, nf=nf, ne=ne)


def parse_ply(text):
    lines = text.splitlines()
    assert lines[0] == "ply" and lines[1].startswith("format ascii")
    nv = nf = None
    i = 2
    while lines[i] != "end_header":
        p = lines[i].split()
        if p[:2] == ["element", "vertex"]:
            nv = int(p[2])
        if p[:2] == ["element", "face"]:
            nf = int(p[2])
        i += 1
    body = lines[i + 1:]
    V = [l.split() for l in body[:nv]]
    Fs = []
    for l in body[nv:nv + nf]:
        p = l.split()
        assert len(p) == int(p[0]) + 1
        Fs.append([int(x) for x in p[1:]])
    assert len(body) == nv + nf
    return V, Fs, dict(nv=nv, nf=nf)


def parse_vtk(text):
    lines = text.splitlines()
    assert lines[0].startswith("# vtk DataFile") and lines[2].strip() == "ASCII" and lines[3].strip() == "DATASET POLYDATA"
    p = lines[4].split()
    assert p[0] == "POINTS"
    nv = int(p[1])
    V = [l.split() for l in lines[5:5 + nv]]
    p = lines[5 + nv].split()
    assert p[0] == "POLYGONS"
    nf, size = int(p[1]), int(p[2])
    Fs = []
    tot = 0
    for l in lines[6 + nv:6 + nv + nf]:
        q = l.split()
        assert len(q) == int(q[0]) + 1
        tot += len(q)
        Fs.append([int(x) for x in q[1:]])
    assert tot == size, "POLYGONS size %d != %d" % (size, tot)
    assert len(lines) == 6 + nv + nf
    return V, Fs, dict(nv=nv, nf=nf, size=size)


def _x3d_from_root(root):
    ifs = [e for e in root.iter() if e.tag.split("}")[-1] == "IndexedFaceSet"]
    assert len(ifs) == 1
    idx = [int(x) for x in ifs[0].attrib["coordIndex"].split()]
    coord = [e for e in ifs[0] if e.tag.split("}")[-1] == "Coordinate"][0]
    pts = coord.attrib["point"].split()
    assert len(pts) % 3 == 0
    P = [pts[i:i + 3] for i in range(0, len(pts), 3)]
    Fs, cur = [], []
    for k in idx:
        if k == -1:
            Fs.append(cur)
            cur = []
        else:
            cur.append(k)
    assert not cur, "coordIndex must end with -1"
    return P, Fs  # faces index into the per-face point list P


def parse_x3d(text):
    return _x3d_from_root(ElementTree.fromstring(text))


def parse_html(text):
    assert text.startswith("<!DOCTYPE html>")
    return _x3d_from_root(ElementTree.fromstring(text[len("<!DOCTYPE html>"):]))


def parse_stl(text):
    lines = [l.strip() for l in text.splitlines()]
    assert lines[0].startswith("solid") and lines[-1].startswith("endsolid")
    tris = []
    i = 1
    while i < len(lines) - 1:
        p = lines[i].split()
        assert p[:2] == ["facet", "normal"], lines[i]
        n = p[2:5]
        assert lines[i + 1] == "outer loop"
        vs = []
        for j in range(3):
            q = lines[i + 2 + j].split()
            assert q[0] == "vertex"
            vs.append(q[1:4])
        assert lines[i + 5] == "endloop" and lines[i + 6] == "endfacet"
        tris.append((n, vs))
        i += 7
    return tris


PARSERS = dict(OBJ=parse_obj, OFF=parse_off, PLY=parse_ply, VTK=parse_vtk)


def _mesh(kind, name):
    if kind == "ConvexPolyhedron":
        v = SH.CONVEX[name]
        return v, SH.convex_facets(v)
    if name in SH.CONVEX:
        v = SH.CONVEX[name]
        return v, SH.convex_facets(v)
    return SH.nonconvex(name)


def make_body(kind, name, quat):
    base, facets = _mesh(kind, name)

    def body(H, V):
        import coxeter.shapes as S
        import numpy as rnp

        ctx = getattr(H, "ctx", None)
        P = SH.place(base, quat, V["s"], [V["tx"], V["ty"], V["tz"]])
        if kind == "ConvexPolyhedron":
            shape = S.ConvexPolyhedron(H.arr(P))
        else:
            shape = S.Polyhedron(H.arr(P), [rnp.array(f) for f in facets], faces_are_convex=True)
        verts0 = [[shape.vertices[i][k] for k in range(3)] for i in range(len(P))]
        faces0 = [[int(i) for i in f] for f in shape.faces]
        edges0 = len(shape.edges)
        # everything the object stores (incl. cached centroid / volume / plane equations) and a few derived answers
        def snap():
            return {k: ([x for x in v.flat] if isinstance(v, rnp.ndarray) else copy.deepcopy(v)) for k, v in _raw(shape).items()}

        raw0 = snap()
        seen0 = dict(centroid=[x for x in shape.centroid], volume=shape.volume, surface_area=shape.surface_area)
        d = tempfile.mkdtemp(prefix="c20_")
        texts = {}
        if ctx is not None:
            ctx.tokens = Tokens()
        try:
            for ft in ("OBJ", "OFF", "PLY", "VTK", "X3D", "HTML", "STL"):
                p = os.path.join(d, "m." + ft.lower())
                shape.save(ft, p)
                texts[ft] = open(p).read()
                os.remove(p)
            ns = dict(ctx.tokens.ns) if ctx is not None else {}
        finally:
            if ctx is not None:
                ctx.tokens = None
            os.rmdir(d)

        def cyc(f):
            m = f.index(min(f))
            return f[m:] + f[:m]

        for ft, parse in PARSERS.items():
            try:
                Vt, Fs, decl = parse(texts[ft])
                H.ok("%s.well_formed" % ft)
            except (AssertionError, ValueError, IndexError) as ex:
                H.fail("%s.well_formed" % ft, "%s: %s" % (type(ex).__name__, str(ex)[:80]))
                if ft != "OFF":
                    continue
                # the remaining OFF content is still checked with the malformed face count of the header tolerated
                try:
                    Vt, Fs, decl = parse(re.sub(r"^(\d+) f(\d+) (\d+)$", r"\1 \2 \3", texts[ft], count=1, flags=re.M))
                except (AssertionError, ValueError, IndexError):
                    continue
            H.claim("%s.vertex_count" % ft, len(Vt) == len(verts0) and decl.get("nv", len(verts0)) == len(verts0))
            H.claim("%s.face_count" % ft, len(Fs) == len(faces0) and decl.get("nf", len(faces0)) == len(faces0))
            if "ne" in decl:
                H.claim("%s.edge_count" % ft, decl["ne"] == edges0)
            H.claim("%s.faces_same_cycles" % ft, [cyc(f) for f in Fs] == [cyc(f) for f in faces0])
            if len(Vt) == len(verts0):
                got = [[_val(H, t, ns) for t in row] for row in Vt]
                if H.symbolic:
                    H.claim_all_eq("%s.coordinates" % ft, got, verts0)
                else:
                    # on the float64 code the decimal text must read back bit for bit
                    for i in range(len(verts0)):
                        for k in range(3):
                            H.claim("%s.coordinates[%d, %d]" % (ft, i, k), float(got[i][k]) == float(verts0[i][k]))
        for ft, parse in (("X3D", parse_x3d), ("HTML", parse_html)):
            try:
                Pt, Fs = parse(texts[ft])
            except (AssertionError, ValueError, IndexError, ElementTree.ParseError) as ex:
                H.fail("%s.well_formed" % ft, "%s: %s" % (type(ex).__name__, str(ex)[:80]))
                continue
            H.ok("%s.well_formed" % ft)
            H.claim("%s.face_count" % ft, len(Fs) == len(faces0))
            ok = len(Fs) == len(faces0) and all(len(a) == len(b) for a, b in zip(Fs, faces0)) and sorted(i for f in Fs for i in f) == list(range(len(Pt)))
            H.claim("%s.index_structure" % ft, ok)
            if ok:
                for fi, f in enumerate(Fs):
                    for j, pi in enumerate(f):
                        got = [_val(H, t, ns) for t in Pt[pi]]
                        want = verts0[faces0[fi][j]]
                        if H.symbolic:
                            H.claim_all_eq("%s.point[f%d,%d]" % (ft, fi, j), got, want)
                        else:
                            for k in range(3):
                                H.claim("%s.point[f%d,%d][%d]" % (ft, fi, j, k), float(got[k]) == float(want[k]))
        # STL
        try:
            tris = parse_stl(texts["STL"])
        except (AssertionError, ValueError, IndexError) as ex:
            H.fail("STL.well_formed", "%s: %s" % (type(ex).__name__, str(ex)[:80]))
            tris = None
        if tris is not None:
            H.ok("STL.well_formed")
            H.claim("STL.triangle_count", len(tris) == sum(len(f) - 2 for f in faces0))
            if len(tris) == sum(len(f) - 2 for f in faces0):
                t = 0
                for fi, f in enumerate(faces0):
                    vs = [verts0[i] for i in f]
                    N = O.cross(O.sub(vs[1], vs[0]), O.sub(vs[2], vs[0]))
                    for a, b, c in SH.fan(f):
                        # outward for convex faces: same orientation as the face
                        nt, vt = tris[t]
                        t += 1
                        n = [_val(H, x, ns) for x in nt]
                        tv = [[_val(H, x, ns) for x in row] for row in vt]
                        H.claim("STL.normal_outward[f%d]" % fi, O.dot(n, N) > 0)
                        # the triangle lies in the face plane and uses the polyhedron's vertices (up to the writer's global shift, which is 0)
                        if H.symbolic:
                            H.claim_all_eq("STL.triangle_vertices[f%d,%d]" % (fi, t), tv, [verts0[a], verts0[b], verts0[c]])
                        else:
                            for r_, (r1, r2) in enumerate(zip(tv, [verts0[a], verts0[b], verts0[c]])):
                                for k in range(3):
                                    H.claim("STL.triangle_vertices[f%d,%d][%d, %d]" % (fi, t, r_, k), float(r1[k]) == float(r2[k]))
        # unchanged
        H.claim_all_eq("shape_unchanged.vertices", [[shape.vertices[i][k] for k in range(3)] for i in range(len(P))], verts0)
        H.claim("shape_unchanged.faces", [[int(i) for i in f] for f in shape.faces] == faces0)
        _same(H, "shape_unchanged.state", snap(), raw0)
        _same(H, "shape_unchanged.answers", dict(centroid=[x for x in shape.centroid], volume=shape.volume, surface_area=shape.surface_area), seen0)

    return body


def obligations(tier, seed):
    from symx.loader import functions_encoded
    from coxeter import io
    import coxeter.shapes as S

    fns = functions_encoded([io.to_obj, io.to_off, io.to_ply, io.to_vtk, io.to_x3d, io.to_html, io.to_stl, S.Polyhedron.save])
    cfgs = [("ConvexPolyhedron", "cutcube", "id"), ("Polyhedron", "L_prism", "r1"), ("ConvexPolyhedron", "frustum", "r2"), ("Polyhedron", "cutcube", "rz90")]
    if tier == "thorough":
        cfgs += [("ConvexPolyhedron", n, "r3") for n in SH.CONVEX] + [("Polyhedron", n, "id") for n in SH.NONCONVEX if n != "frame"]
    obs = []
    # sample with small, non-terminating coordinates: the float64 read-back at this point exercises the decimal rendering
    first = dict(s=F(1, 97), tx=F(1, 370), ty=F(-1, 530), tz=F(1, 7100))
    for kind, name, quat in sorted(set(cfgs)):
        nm = "C20/%s.%s.%s" % (kind, name, quat)
        obs.append((nm, (lambda nm=nm, kind=kind, name=name, quat=quat: run_e2(
            nm, ["s", "tx", "ty", "tz"], make_body(kind, name, quat), positive=["s"], pre=lambda V: [V["s"] >= F(1, 10**5), V["s"] <= 10**5],
            first_sample=first, functions=fns, max_paths=(3 if tier == "quick" else 8), budget_s=(200 if tier == "quick" else 900), rtol=1e-12,
            stubs=["qhull / kabsch contract stubs", "str(coordinate) -> token"],
            bounds="%s %s placed by free scale in [1e-5,1e5], free translation, rotation %s; all seven writers; path budget" % (kind, name, quat)))))
    for c in ("save_unknown_type_raises", "save_dispatch"):
        obs.append(("C20/E1." + c, (lambda c=c: run_crosshair("C20/E1." + c, "C20_dispatch.py", c, timeout_s=(60 if tier == "quick" else 200),
                                                                bounds="CrossHair: symbolic file-type string (len <= 4) / index of the seven types"))))
    return obs
