"""C13 - bounding, bounded, circum- and in-spheres/circles satisfy their definitions.

Free-parameter families in which existence of a circum-/in-ball is an equation in the parameters
(rectangle a x b, kite, box a x b x c, triangular prism), fully free triangles and tetrahedra (balls
always exist), and placement-free base shapes.  The real getters run through the exact ``lstsq``
stub (normal equations), so the residual test ``isclose(resid, 0)`` is a polynomial branch condition
in the parameters: where the parameters violate the existence equation by a 1 % margin the getter
must raise RuntimeError; where it returns, the ball must satisfy the definition (every vertex at
distance r; every face / edge plane at signed distance r from a centre inside).
"""
from fractions import Fraction as F

from . import common, oracles as O, shapes as SH
from .common import run_e2

LEVEL = "model_checking"
TECHNIQUE = "symbolic execution of the ball getters over free-parameter shape families with an exact least-squares stub; definition / RuntimeError claims decided by z3 (QF_NRA)"
ASSUMPTIONS = [
    "A1 reals not floats; margins: parameters off the existence equation by >= 1 % (relative) must raise, exact solutions must be returned; family sizes in [1/2, 4] (the residual tests of the code use absolute tolerances, their scale dependence is not claimed here)",
    "numpy.linalg.lstsq replaced by its contract (exact least squares by the normal equations, residual as documented)",
    "miniball replaced by its contract on concrete points (smallest enclosing ball, exact): for minimal_bounding_* only coxeter's wrapper is decided",
]


def _circum_claims(H, tag, ball, verts):
    c = list(ball.centroid)
    r = ball.radius
    H.claim(tag + ".radius_positive", r > 0)
    for i, v in enumerate(verts):
        d = O.sub(list(v), c)
        H.claim_eq(tag + ".vertex_on_ball[%d]" % i, O.dot(d, d), r * r)


def _in_polygon_claims(H, tag, ball, verts, nrm):
    c = list(ball.centroid)
    r = ball.radius
    H.claim(tag + ".radius_positive", r > 0)
    n = len(verts)
    m = O.polygon_measures([list(v) for v in verts], nrm)
    sgn = 1 if m["A"] > 0 else -1
    for i in range(n):
        a, b = list(verts[i]), list(verts[(i + 1) % n])
        e = O.sub(b, a)
        inward = [sgn * x for x in O.cross(nrm, e)]
        h = O.dot(O.sub(c, a), inward)  # = signed distance * |e|
        H.claim(tag + ".centre_inside_edge[%d]" % i, h > 0)
        H.claim_eq(tag + ".tangent_to_edge[%d]" % i, h * h, r * r * O.dot(e, e))
    H.claim_eq(tag + ".centre_in_plane", O.dot(O.sub(c, list(verts[0])), nrm), 0)


def _in_polyhedron_claims(H, tag, ball, P, facets):
    c = list(ball.centroid)
    r = ball.radius
    H.claim(tag + ".radius_positive", r > 0)
    for fi, f in enumerate(facets):
        a, b, d = P[f[0]], P[f[1]], P[f[2]]
        N = O.cross(O.sub(b, a), O.sub(d, a))  # outward
        h = O.dot(O.sub(a, c), N)  # distance * |N|, positive inside
        H.claim(tag + ".centre_inside_face[%d]" % fi, h > 0)
        H.claim_eq(tag + ".tangent_to_face[%d]" % fi, h * h, r * r * O.dot(N, N))


def _expect_raise(H, tag, fn):
    try:
        b = fn()
    except RuntimeError:
        H.ok(tag + ".raises_RuntimeError")
        return None
    H.fail(tag + ".raises_RuntimeError", "returned a ball (radius %s) although none exists" % (str(getattr(b, "radius", "?"))[:40],))
    return b


def rectangle_body(H, V):
    from coxeter.shapes import ConvexPolygon

    a, b, tx, ty, tz = V["a"], V["b"], V["tx"], V["ty"], V["tz"]
    verts = [[tx, ty, tz], [tx + a, ty, tz], [tx + a, ty + b, tz], [tx, ty + b, tz]]  # plane z = tz: does not contain the origin in general
    p = ConvexPolygon(H.arr(verts))
    vs = [list(v) for v in p.vertices]
    _circum_claims(H, "rectangle.circumcircle", p.circumcircle, vs)
    H.claim_eq("rectangle.circumcircle_radius^2", p.circumcircle_radius ** 2, (a * a + b * b) / 4)
    # an incircle exists iff a == b
    if a == b:
        _in_polygon_claims(H, "square.incircle", p.incircle, vs, list(p.normal))
    elif H.or_(a - b >= a / 100, b - a >= a / 100):
        _expect_raise(H, "rectangle.incircle", lambda: p.incircle)
    # centred balls
    cb = p.minimal_centered_bounding_circle
    H.claim_all_eq("rectangle.centred_bounding.centre", cb.centroid, [tx + a / 2, ty + b / 2, tz])
    H.claim_eq("rectangle.centred_bounding.radius^2", cb.radius ** 2, (a * a + b * b) / 4)
    ci = p.maximal_centered_bounded_circle
    small = a if a <= b else b
    H.claim_eq("rectangle.centred_bounded.radius", ci.radius, small / 2)
    H.claim_all_eq("rectangle.centred_bounded.centre", ci.centroid, [tx + a / 2, ty + b / 2, tz])


def kite_body(H, V):
    """Kite (0,0),(p,-q),(w,0),(p,q): always tangential; cyclic iff p*(w-p) == q*q."""
    from coxeter.shapes import ConvexPolygon

    p_, q, w, tz = V["p"], V["q"], V["w"], V["tz"]
    verts = [[0 * q, 0 * q, tz], [p_, -q, tz], [w, 0 * q, tz], [p_, q, tz]]
    k = ConvexPolygon(H.arr(verts))
    vs = [list(v) for v in k.vertices]
    _in_polygon_claims(H, "kite.incircle", k.incircle, vs, list(k.normal))
    lhs, rhs = p_ * (w - p_), q * q
    if lhs == rhs:
        _circum_claims(H, "kite.circumcircle", k.circumcircle, vs)
    elif H.or_(lhs - rhs >= rhs / 50, rhs - lhs >= rhs / 50):
        _expect_raise(H, "kite.circumcircle", lambda: k.circumcircle)


def clockwise_body(H, V):
    """Polygons whose vertices run clockwise about their (explicit) normal: the kite above and a triangle, as plain Polygon
    objects with the normal opposite to the winding.  The in- and circumcircle do not depend on the orientation."""
    from coxeter.shapes import Polygon

    p_, q, w, tz = V["p"], V["q"], V["w"], V["tz"]
    verts = [[0 * q, 0 * q, tz], [p_, -q, tz], [w, 0 * q, tz], [p_, q, tz]]  # counter-clockwise seen from +z
    k = Polygon(H.arr(verts), normal=H.arr([H.num(0), H.num(0), H.num(-1)]), test_simple=False)
    vs = [list(v) for v in k.vertices]
    H.claim("clockwise.kite.signed_area<0", k.signed_area < 0)
    _in_polygon_claims(H, "clockwise.kite.incircle", k.incircle, vs, list(k.normal))
    tri = Polygon(H.arr([[0 * q, 0 * q, tz], [p_, q, tz], [w, 0 * q, tz]]), normal=H.arr([H.num(0), H.num(0), H.num(1)]), test_simple=False)  # clockwise seen from +z
    tv = [list(v) for v in tri.vertices]
    H.claim("clockwise.triangle.signed_area<0", tri.signed_area < 0)
    _in_polygon_claims(H, "clockwise.triangle.incircle", tri.incircle, tv, list(tri.normal))
    _circum_claims(H, "clockwise.triangle.circumcircle", tri.circumcircle, tv)


def triangle_body(H, V):
    from coxeter.shapes import Polygon

    flat = [[V.get("x%d" % i, H.num([0, 4, 1][i])), V.get("y%d" % i, H.num([0, 0, 3][i])), 0 * V["x2"]] for i in range(3)]
    if "tz" in V:
        # tilted plane (rational rotation) at a free offset along z: the plane does not contain the origin
        R = O.rot_from_quat(1, 2, 2, 0)
        verts = [[c + (V["tz"] if k == 2 else 0) for k, c in enumerate(O.matvec(R, v))] for v in flat]
    else:
        verts = flat
    p = Polygon(H.arr(verts), test_simple=False)
    vs = [list(v) for v in p.vertices]
    _circum_claims(H, "triangle.circumcircle", p.circumcircle, vs)
    _in_polygon_claims(H, "triangle.incircle", p.incircle, vs, list(p.normal))


def box_body(H, V):
    from coxeter.shapes import ConvexPolyhedron

    a, b, c = V["a"], V["b"], V["c"]
    t = [V["tx"], V["ty"], V["tz"]]
    base = [(x, y, z) for x in (0, 1) for y in (0, 1) for z in (0, 1)]
    P = [[t[0] + a * x, t[1] + b * y, t[2] + c * z] for x, y, z in base]
    p = ConvexPolyhedron(H.arr(P))
    _circum_claims(H, "box.circumsphere", p.circumsphere, P)
    H.claim_eq("box.circumsphere_radius^2", p.circumsphere_radius ** 2, (a * a + b * b + c * c) / 4)
    facets = SH.convex_facets(base)
    if H.and_(a == b, b == c):
        _in_polyhedron_claims(H, "cube.insphere", p.insphere, P, facets)
    elif H.or_(a - b >= a / 100, b - a >= a / 100, a - c >= a / 100, c - a >= a / 100):
        _expect_raise(H, "box.insphere", lambda: p.insphere)
    cen = [t[0] + a / 2, t[1] + b / 2, t[2] + c / 2]
    mb = p.minimal_centered_bounding_sphere
    H.claim_all_eq("box.centred_bounding.centre", mb.centroid, cen)
    H.claim_eq("box.centred_bounding.radius^2", mb.radius ** 2, (a * a + b * b + c * c) / 4)
    mi = p.maximal_centered_bounded_sphere
    small = min(a, b, c)
    H.claim_eq("box.centred_bounded.radius", mi.radius, small / 2)
    H.claim_all_eq("box.centred_bounded.centre", mi.centroid, cen)


def tetra_body(H, V):
    """State built from the representation invariant (as C01): only the ball getters are the subject."""
    from coxeter.shapes import ConvexPolyhedron
    import numpy as rnp

    base = SH.CONVEX["tetra"]
    P = [[V.get("v%d%d" % (i, k), H.num(base[i][k])) for k in range(3)] for i in range(4)]
    faces = [[0, 2, 1], [0, 1, 3], [0, 3, 2], [1, 2, 3]]
    d = O.det3(O.sub(P[1], P[0]), O.sub(P[2], P[0]), O.sub(P[3], P[0]))
    p = object.__new__(ConvexPolyhedron)
    p._vertices = H.arr(P)
    p._ndim = 3
    p._faces_are_convex = True
    p._simplices = rnp.array(faces)
    p._faces = [rnp.array(f) for f in faces]
    p._coplanar_simplices = [rnp.array([i]) for i in range(4)]
    p._volume = d / 6
    p._find_simplex_equations()
    p._equations = p._simplex_equations
    p._centroid_from_triangulated_surface()
    _circum_claims(H, "tetra.circumsphere", p.circumsphere, P)
    _in_polyhedron_claims(H, "tetra.insphere", p.insphere, P, faces)


def placed_body(kind, name, quat, start=0):
    """``start`` rotates the vertex list of a polygon: ConvexPolygon keeps the caller's first vertex first, so every edge
    gets to be the closing edge (last vertex -> first vertex) in one of the obligations."""
    def body(H, V):
        import coxeter.shapes as S

        s, t = V["s"], [V["tx"], V["ty"], V["tz"]]
        if kind == "ConvexPolyhedron":
            base = SH.CONVEX[name]
            P = SH.place(base, quat, s, t)
            p = S.ConvexPolyhedron(H.arr(P))
            facets = SH.convex_facets(base)
            tris = [(P[a], P[b], P[c]) for f in facets for a, b, c in SH.fan(f)]
            Vol, m1, _ = O.polyhedron_moments(tris)
            cen = [m1[k] / Vol for k in range(3)]
            mb = p.minimal_centered_bounding_sphere
            H.claim_all_eq("centred_bounding.centre=centroid", mb.centroid, cen)
            H.claim("centred_bounding.contains_all", H.and_(*[H.le(O.dot(O.sub(v, cen), O.sub(v, cen)), mb.radius ** 2) for v in P]))
            H.claim("centred_bounding.touches_a_vertex", H.or_(*[H.eqb(O.dot(O.sub(v, cen), O.sub(v, cen)), mb.radius ** 2) for v in P]))
            mi = p.maximal_centered_bounded_sphere
            H.claim_all_eq("centred_bounded.centre=centroid", mi.centroid, cen)
            hs = []
            for f in facets:
                a, b, d = P[f[0]], P[f[1]], P[f[2]]
                N = O.cross(O.sub(b, a), O.sub(d, a))
                hs.append((O.dot(O.sub(a, cen), N), O.dot(N, N)))
            r = mi.radius
            H.claim("centred_bounded.inside", H.and_(r > 0, *[H.and_(h > 0, H.le(r * r * nn, h * h)) for h, nn in hs]))
            H.claim("centred_bounded.touches_a_face", H.or_(*[H.eqb(r * r * nn, h * h) for h, nn in hs]))
        else:
            base = [(x, y, 0) for x, y in SH.POLYGONS[name]]
            base = base[start:] + base[:start]
            P = SH.place(base, quat, s, t)
            p = S.ConvexPolygon(H.arr(P))
            vs = [list(v) for v in p.vertices]
            nrm = list(p.normal)
            m = O.polygon_measures(vs, nrm)
            cen = m["c"]
            mb = p.minimal_centered_bounding_circle
            H.claim_all_eq("centred_bounding.centre=centroid", mb.centroid, cen)
            H.claim("centred_bounding.contains_all", H.and_(*[H.le(O.dot(O.sub(v, cen), O.sub(v, cen)), mb.radius ** 2) for v in vs]))
            H.claim("centred_bounding.touches_a_vertex", H.or_(*[H.eqb(O.dot(O.sub(v, cen), O.sub(v, cen)), mb.radius ** 2) for v in vs]))
            mi = p.maximal_centered_bounded_circle
            sgn = 1 if m["A"] > 0 else -1
            hs = []
            for i in range(len(vs)):
                a, b = vs[i], vs[(i + 1) % len(vs)]
                e = O.sub(b, a)
                inward = [sgn * x for x in O.cross(nrm, e)]
                hs.append((O.dot(O.sub(cen, a), inward), O.dot(e, e)))
            r = mi.radius
            H.claim_all_eq("centred_bounded.centre=centroid", mi.centroid, cen)
            H.claim("centred_bounded.inside", H.and_(r > 0, *[H.and_(h > 0, H.le(r * r * ee, h * h)) for h, ee in hs]))
            H.claim("centred_bounded.touches_an_edge", H.or_(*[H.eqb(r * r * ee, h * h) for h, ee in hs]))

    return body


# solids whose circumsphere exists but is not their smallest enclosing ball (circumcentre outside the body)
EXTRA_SOLIDS = {"flat_tetra": [(-3, 0, 0), (3, 0, 0), (0, 1, 0), (0, 0, 1)],
                "obtuse_prism": [(-3, 0, 0), (3, 0, 0), (0, 1, 0), (-3, 0, 1), (3, 0, 1), (0, 1, 1)]}


def _solid(name):
    return SH.CONVEX[name] if name in SH.CONVEX else EXTRA_SOLIDS[name]


def _exact_ball_claims(H, tag, ball, placed_fractions):
    cen, r2 = O.min_enclosing_ball([[F(c) for c in p] for p in placed_fractions])
    c = list(ball.centroid)
    if H.symbolic:
        H.claim_all_eq(tag + ".centre=smallest_enclosing_ball", c[:len(cen)], cen)
        H.claim_eq(tag + ".radius^2=smallest_enclosing_ball", ball.radius * ball.radius, r2)
    else:
        # the real miniball is an iterative float routine: 1e-6 of the radius is its accuracy here, far below any wrong ball
        tol = 1e-6 * max(1.0, float(r2) ** 0.5)
        for k in range(len(cen)):
            H.claim(tag + ".centre=smallest_enclosing_ball[%d]" % k, abs(float(c[k]) - float(cen[k])) <= tol)
        H.claim(tag + ".radius^2=smallest_enclosing_ball", abs(float(ball.radius) ** 2 - float(r2)) <= 2 * tol * max(1.0, float(r2) ** 0.5))


def miniball_body(kind, name, quat):
    """Concrete placement: coxeter's wrapper around miniball returns the smallest enclosing ball."""
    def body(H, V):
        import coxeter.shapes as S

        off = [F(3), F(-2), F(5)]
        if kind == "Polyhedron":
            P = [[H.num(c) for c in p] for p in SH.place(_solid(name), quat, 1, off)]
            p = S.ConvexPolyhedron(H.arr(P))
            ball = p.minimal_bounding_sphere
        else:
            P = [[H.num(c) for c in p] for p in SH.place([(x, y, 0) for x, y in SH.POLYGONS[name]], quat, 1, off)]
            p = S.Polygon(H.arr(P), test_simple=False)
            ball = p.minimal_bounding_circle
        c, r = list(ball.centroid), ball.radius
        d2 = [O.dot(O.sub(v, c), O.sub(v, c)) for v in P]
        H.claim("minimal_bounding.contains_all", H.and_(*[H.le(x, r * r) for x in d2]))
        # smallest: a minimal ball has at least two vertices on its boundary (necessary condition; minimality itself is miniball's contract)
        H.claim("minimal_bounding.has_two_support_points", sum(1 for x in d2 if bool(H.eqb(x, r * r))) >= 2)
        H.claim_eq("minimal_bounding.radius_getter", (p.minimal_bounding_sphere_radius if kind == "Polyhedron" else p.minimal_bounding_circle_radius), r)
        # the ball itself, against an exact brute-force computation on the same points (the wrapper must not substitute another ball)
        _exact_ball_claims(H, "minimal_bounding", ball, SH.place(_solid(name) if kind == "Polyhedron" else [(x, y, 0) for x, y in SH.POLYGONS[name]], quat, 1, off))

    return body


RANDOM_QUATS = [(F(1, 5), F(2, 5), F(2, 5), F(4, 5)), (F(1, 2), F(-1, 2), F(1, 2), F(1, 2)), (F(2, 7), F(3, 7), F(-6, 7), F(0))]


def miniball_retry_body(kind, name, quat, nfail):
    """Environment model of the wrapper's retry loop: the library's first ``nfail`` calls fail with LinAlgError (it does
    so for cocircular / cospherical points, depending on its internal random pivoting) and rowan.random.rand returns
    unit quaternions of the harness's choosing.  Whatever the environment does, the wrapper has to hand back the
    smallest enclosing ball of the shape's own vertices."""
    def body(H, V):
        import contextlib
        import coxeter.shapes as S

        @contextlib.contextmanager
        def environment():
            if H.symbolic:
                from symx import core

                core.CTX.miniball_failures, core.CTX.miniball_calls = nfail, 0
                core.CTX.random_quats, core.CTX.random_calls = RANDOM_QUATS, 0
                try:
                    yield
                finally:
                    core.CTX.miniball_failures, core.CTX.random_quats = 0, None
            else:
                import miniball
                import numpy
                import rowan

                real_ball, real_rand = miniball.get_bounding_ball, rowan.random.rand
                st = dict(ball=0, rand=0)

                def ball(pts, *a, **k):
                    st["ball"] += 1
                    if st["ball"] <= nfail:
                        raise numpy.linalg.LinAlgError("singular matrix (environment model)")
                    return real_ball(pts, *a, **k)

                def rand(*a):
                    q = RANDOM_QUATS[st["rand"] % len(RANDOM_QUATS)]
                    st["rand"] += 1
                    return numpy.array([float(x) for x in q])

                miniball.get_bounding_ball, rowan.random.rand = ball, rand
                try:
                    yield
                finally:
                    miniball.get_bounding_ball, rowan.random.rand = real_ball, real_rand

        off = [F(3), F(-2), F(5)]
        with environment():
            if kind == "Polyhedron":
                P = [[H.num(c) for c in p] for p in SH.place(SH.CONVEX[name], quat, 1, off)]
                p = S.ConvexPolyhedron(H.arr(P))
                ball = p.minimal_bounding_sphere
            else:
                P = [[H.num(c) for c in p] for p in SH.place([(x, y, 0) for x, y in SH.POLYGONS[name]], quat, 1, off)]
                p = S.Polygon(H.arr(P), test_simple=False)
                ball = p.minimal_bounding_circle
        c, r = list(ball.centroid), ball.radius
        d2 = [O.dot(O.sub(v, c), O.sub(v, c)) for v in P]
        H.claim("minimal_bounding.retry.contains_all", H.and_(*[H.le(x, r * r) for x in d2]))
        H.claim("minimal_bounding.retry.has_two_support_points", sum(1 for x in d2 if bool(H.eqb(x, r * r))) >= 2)

    return body


def curved_body(H, V):
    import coxeter.shapes as S

    a, b, c = V["a"], V["b"], V["c"]
    cen = [V["tx"], V["ty"], V["tz"]]
    e = S.Ellipsoid(a, b, c, cen)
    big, small = max(a, b, c), min(a, b, c)
    for nm, want in (("minimal_bounding_sphere", big), ("minimal_centered_bounding_sphere", big), ("maximal_bounded_sphere", small),
                     ("maximal_centered_bounded_sphere", small)):
        s = getattr(e, nm)
        H.claim_eq("ellipsoid.%s.radius" % nm, s.radius, want)
        H.claim_all_eq("ellipsoid.%s.centre" % nm, s.centroid, cen)
        H.claim_eq("ellipsoid.%s_radius" % nm, getattr(e, nm + "_radius"), want)
    el = S.Ellipse(a, b, cen)
    big2, small2 = max(a, b), min(a, b)
    for nm, want in (("minimal_bounding_circle", big2), ("minimal_centered_bounding_circle", big2), ("maximal_bounded_circle", small2),
                     ("maximal_centered_bounded_circle", small2)):
        s = getattr(el, nm)
        H.claim_eq("ellipse.%s.radius" % nm, s.radius, want)
        H.claim_all_eq("ellipse.%s.centre" % nm, s.centroid, cen)
    sp = S.Sphere(a, cen)
    for nm in ("minimal_bounding_sphere", "minimal_centered_bounding_sphere", "maximal_bounded_sphere", "maximal_centered_bounded_sphere"):
        H.claim_eq("sphere.%s.radius" % nm, getattr(sp, nm).radius, a)
    ci = S.Circle(a, cen)
    for nm in ("minimal_bounding_circle", "minimal_centered_bounding_circle", "maximal_centered_bounded_circle"):
        H.claim_eq("circle.%s.radius" % nm, getattr(ci, nm).radius, a)


def obligations(tier, seed):
    from symx.loader import functions_encoded
    import coxeter.shapes as S

    fns = functions_encoded([S.Polygon.circumcircle.fget, S.Polygon.incircle.fget, S.Polyhedron.circumsphere.fget, S.Polyhedron.insphere.fget,
                             S.ConvexPolygon.minimal_centered_bounding_circle.fget, S.ConvexPolygon.maximal_centered_bounded_circle.fget,
                             S.ConvexPolyhedron.minimal_centered_bounding_sphere.fget, S.ConvexPolyhedron.maximal_centered_bounded_sphere.fget,
                             S.Polygon.minimal_bounding_circle.fget, S.Polyhedron.minimal_bounding_sphere.fget])
    stubs = ["lstsq -> exact normal equations", "qhull / kabsch contract stubs", "miniball -> exact smallest enclosing ball (concrete points)"]
    mp = 12 if tier == "quick" else 48
    obs = []

    def add(name, names, body, positive=(), pre=None, first=None, bounds="", paths=mp, budget=None):
        obs.append((name, lambda: run_e2(name, list(names), body, positive=list(positive), pre=pre, first_sample=first, functions=fns, stubs=stubs,
                                         max_paths=paths, budget_s=budget or (200 if tier == "quick" else 1200), bounds=bounds)))

    def unit(*ns):
        return lambda V: [c for n in ns for c in (V[n] >= F(1, 2), V[n] <= 4)]

    add("C13/rectangle", ["a", "b", "tx", "ty", "tz"], rectangle_body, positive=["a", "b"], pre=unit("a", "b"), first=dict(a=F(4), b=F(1), tx=F(2), ty=F(-3), tz=F(5)),
        bounds="rectangle a x b at a free offset incl. out of the xy-plane: 5 free reals; incircle exists iff a = b (1 % margin)")
    add("C13/kite", ["p", "q", "w", "tz"], kite_body, positive=["p", "q", "w"], pre=lambda V: [V["w"] >= V["p"] + F(1, 2)] + unit("p", "q", "w")(V), first=dict(p=F(1), q=F(2), w=F(4), tz=F(-3)),
        bounds="kite (0,0),(p,-q),(w,0),(p,q): 3 free reals; always tangential, cyclic iff p(w-p) = q^2 (2 % margin)")
    add("C13/clockwise", ["p", "q", "w", "tz"], clockwise_body, positive=["p", "q", "w"], pre=lambda V: [V["w"] >= V["p"] + F(1, 2)] + unit("p", "q", "w")(V), first=dict(p=F(1), q=F(2), w=F(4), tz=F(-3)),
        bounds="kite and triangle listed clockwise about an explicit normal (plain Polygon), 3 free reals + free z offset")
    import math

    tri_first = {}
    for i in range(3):
        ang = 2 * math.pi * i / 3 + 0.3
        tri_first["x%d" % i] = F(round(7 * math.cos(ang)), 3)
        tri_first["y%d" % i] = F(round(7 * math.sin(ang)), 3)
    from . import C04

    if tier == "thorough":
        add("C13/triangle.free", ["x0", "x1", "x2", "y0", "y1", "y2"], triangle_body, pre=lambda V: [C04._orient(V, 0, 1, 2) != 0], first=tri_first,
            bounds="triangle with all 6 coordinates free (non-degenerate)", budget=2500)
    add("C13/triangle.one_free_vertex", ["x2", "y2"], triangle_body, pre=lambda V: [V["y2"] != 0], first=dict(x2=F(1), y2=F(3)),
        bounds="triangle (0,0),(4,0),(x2,y2) with the third vertex free (2 reals, off the base line)")
    add("C13/triangle.tilted_lifted", ["x2", "y2", "tz"], triangle_body, pre=lambda V: [V["y2"] != 0], first=dict(x2=F(1), y2=F(3), tz=F(4)),
        bounds="the same triangle in a tilted plane (rational rotation) lifted by a free z offset: the plane does not contain the origin")
    add("C13/box", ["a", "b", "c", "tx", "ty", "tz"], box_body, positive=["a", "b", "c"], pre=unit("a", "b", "c"), first=dict(a=F(2), b=F(3), c=F(5), tx=F(1), ty=F(-2), tz=F(4)),
        bounds="box a x b x c at a free offset: 6 free reals; insphere exists iff a = b = c (1 % margin)", paths=(16 if tier == "quick" else 64))
    base = SH.CONVEX["tetra"]
    tf = {"v%d%d" % (i, k): F(base[i][k]) + F(i + 2 * k, 7) for i in range(4) for k in range(3)}
    names = ["v%d%d" % (i, k) for i in range(4) for k in range(3)]

    def tpre(V):
        P = [[V["v%d%d" % (i, k)] for k in range(3)] for i in range(4)]
        return [O.det3(O.sub(P[1], P[0]), O.sub(P[2], P[0]), O.sub(P[3], P[0])) > 0]

    if tier == "thorough":
        add("C13/tetrahedron.free", names, tetra_body, pre=tpre, first=tf, bounds="tetrahedron with all 12 coordinates free (state from the representation invariant)",
            paths=12, budget=2500)
    add("C13/tetrahedron.one_free_vertex", ["v30", "v31", "v32"], tetra_body, pre=lambda V: [V["v32"] > 0], first=dict(v30=F(1), v31=F(1), v32=F(4)),
        bounds="tetrahedron (0,0,0),(3,0,0),(0,2,0),(x,y,z) with the apex free (3 reals, above the base plane)", paths=(3 if tier == "quick" else 12))
    first = dict(s=F(3, 2), tx=F(7, 3), ty=F(-5, 2), tz=F(11, 4))
    placed = [("ConvexPolyhedron", "skew", "r1"), ("ConvexPolyhedron", "frustum", "id"), ("ConvexPolygon", "quad", "r2"), ("ConvexPolygon", "pent", "id")]
    if tier == "thorough":
        placed += [("ConvexPolyhedron", n, "r3") for n in SH.CONVEX] + [("ConvexPolygon", n, "r1") for n in ("tri", "quad", "pent")]
    for kind, nm, q in sorted(set(placed)):
        add("C13/centred.%s.%s.%s" % (kind, nm, q), ["s", "tx", "ty", "tz"], placed_body(kind, nm, q), positive=["s"], first=first,
            bounds="%s %s, free scale/translation, rotation %s" % (kind, nm, q), paths=(3 if tier == "quick" else 10))
    starts = [("tri", "r1", 1), ("tri", "id", 2), ("quad", "id", 1), ("quad", "r1", 2), ("quad", "r2", 3), ("pent", "r1", 1), ("pent", "r2", 2), ("pent", "id", 3), ("pent", "r3", 4)]
    for nm, q, st in starts:
        add("C13/centred.ConvexPolygon.%s.%s.start%d" % (nm, q, st), ["s", "tx", "ty", "tz"], placed_body("ConvexPolygon", nm, q, st), positive=["s"], first=first,
            bounds="ConvexPolygon %s listed from vertex %d, free scale/translation, rotation %s" % (nm, st, q), paths=(3 if tier == "quick" else 10))
    for kind, nm, q in [("Polyhedron", "skew", "r1"), ("Polyhedron", "cube", "r2"), ("Polygon", "arrow", "r1"), ("Polygon", "L", "id"),
                        ("Polyhedron", "flat_tetra", "r1"), ("Polyhedron", "obtuse_prism", "id"), ("Polygon", "tri", "r2")]:
        add("C13/minimal_bounding.%s.%s.%s" % (kind, nm, q), ["dummy"], miniball_body(kind, nm, q), first=dict(dummy=F(1)),
            bounds="%s %s concrete placement (rotation %s, offset (3,-2,5))" % (kind, nm, q), paths=2)
    retry = [("Polyhedron", "cube", "r2", 1), ("Polyhedron", "cube", "r2", 2), ("Polygon", "L", "id", 1), ("Polygon", "L", "id", 2), ("Polygon", "arrow", "r1", 3)]
    if tier == "thorough":
        retry += [("Polyhedron", "skew", "r1", 2), ("Polyhedron", "skew", "r1", 3), ("Polygon", "arrow", "r1", 2), ("Polyhedron", "cube", "r2", 9), ("Polygon", "L", "id", 9)]
    for kind, nm, q, nf in retry:
        add("C13/minimal_bounding.retry%d.%s.%s.%s" % (nf, kind, nm, q), ["dummy"], miniball_retry_body(kind, nm, q, nf), first=dict(dummy=F(1)),
            bounds="%s %s concrete placement (rotation %s, offset (3,-2,5)); environment: the first %d miniball calls raise LinAlgError, rowan.random.rand returns three fixed rational unit quaternions in turn" % (kind, nm, q, nf), paths=2)
    add("C13/curved", ["a", "b", "c", "tx", "ty", "tz"], curved_body, positive=["a", "b", "c"], first=dict(a=F(2), b=F(3), c=F(5), tx=F(1), ty=F(-2), tz=F(4)),
        bounds="semi-axes and centre free: 6 reals, all orderings", paths=(40 if tier == "quick" else 200))
    return obs
