"""C02 - general (non-convex) polyhedron measures are exact.

The real ``Polyhedron`` constructor and getters (``get_face_area`` -> real ``ConvexPolygon``
constructor per face, ``_surface_triangulation`` -> real polytri ear clipping incl. its matrix
inverse and thresholds, ``centroid``, ``_compute_inertia_tensor``) run on non-convex base solids
(L/U/C prisms with triangulated caps, arrow prism, frame with a hole, dented star) and on Polyhedron
copies of convex solids, placed by a free scale s in [1/4, 100], a free translation and rational
rotations.  Oracle: signed-tetrahedron sums over a fan triangulation of the given faces.
"""
from fractions import Fraction as F

from . import common, oracles as O, shapes as SH
from .common import run_e2

LEVEL = "model_checking"
TECHNIQUE = "symbolic execution of the real Polyhedron code (incl. polytri and per-face ConvexPolygon) with free placement (symx + z3 QF_NRA), signed-tetrahedron oracle"
ASSUMPTIONS = [
    "A1 reals not floats",
    "scale restricted to [1/4, 100] where polytri's absolute 1e-6 thresholds are inactive (their effect is C09's subject)",
    "kabsch / 2-D qhull replaced by contract stubs",
]


def _shape(kind, name):
    if kind == "convex":
        v = SH.CONVEX[name]
        return v, SH.convex_facets(v)
    return SH.nonconvex(name)


def make_body(kind, name, quat):
    base, faces = _shape(kind, name)

    def body(H, V):
        from coxeter.shapes import Polyhedron
        import numpy as rnp

        P = SH.place(base, quat, V["s"], [V["tx"], V["ty"], V["tz"]])
        poly = Polyhedron(H.arr(P), [rnp.array(f) for f in faces], faces_are_convex=True)
        tris = [(P[a], P[b], P[c]) for f in faces for a, b, c in SH.fan(f)]
        Vol, m1, m2 = O.polyhedron_moments(tris)
        H.claim_eq("volume", poly.volume, Vol)
        areas = poly.get_face_area()
        total = 0
        for fi, f in enumerate(faces):
            vs = [P[i] for i in f]
            N = O.cross(O.sub(vs[1], vs[0]), O.sub(vs[2], vs[0]))
            nu = [c / H.sqrt(O.dot(N, N)) for c in N]
            A = O.polygon_measures(vs, nu)["A"]
            H.claim_eq("face_area[%d]" % fi, areas[fi], A)
            total = total + A
        H.claim_eq("surface_area", poly.surface_area, total)
        H.claim_all_eq("centroid", poly.centroid, [m1[k] / Vol for k in range(3)])
        H.claim_all_eq("inertia_tensor", poly.inertia_tensor, O.inertia_from_moments(m2))
        H.claim_eq("get_face_area(int)", poly.get_face_area(1)[0], areas[1])
        sub = poly.get_face_area([2, 0])
        H.claim_eq("get_face_area(list)[0]", sub[0], areas[2])
        H.claim_eq("get_face_area(list)[1]", sub[1], areas[0])
        H.claim("num_vertices/num_faces", poly.num_vertices == len(P) and poly.num_faces == len(faces))
        H.claim_all_eq("vertices_unchanged", poly.vertices, P)

    return body


def _ob(kind, name, quat, tier, small=False):
    oname = "C02/%s.%s.%s" % (kind, name, quat)
    from coxeter.shapes import Polyhedron, ConvexPolygon
    from coxeter.extern.polytri import polytri
    from coxeter.shapes.utils import translate_inertia_tensor
    from symx.loader import functions_encoded

    Pn = Polyhedron
    fns = functions_encoded([Pn.__init__, Pn._find_equations, Pn.volume.fget, Pn.get_face_area, Pn.surface_area.fget, Pn._surface_triangulation,
                             Pn.centroid.fget, Pn._compute_inertia_tensor, Pn.inertia_tensor.fget, ConvexPolygon.__init__, ConvexPolygon._reorder_verts,
                             polytri.triangulate, polytri.any_point_in_triangle, polytri.calculate_normal_3d, translate_inertia_tensor])

    def pre(V):
        if small:
            # small solids near the origin: absolute tolerances in the triangulation code become branch conditions
            return [V["s"] >= F(1, 10**6), V["s"] <= F(1, 4)] + [c for k in ("tx", "ty", "tz") for c in (V[k] >= -V["s"] * 10, V[k] <= V["s"] * 10)]
        return [V["s"] >= F(1, 4), V["s"] <= 100]

    first = dict(s=F(3, 2), tx=F(7, 3), ty=F(-5, 2), tz=F(11, 4)) if not small else dict(s=F(1, 8), tx=F(1, 3), ty=F(-1, 2), tz=F(1, 4))
    base, faces = _shape(kind, name)
    if small:
        oname = oname + ".small"
    return (oname, lambda: run_e2(oname, ["s", "tx", "ty", "tz"], make_body(kind, name, quat), positive=["s"], pre=pre, functions=fns, first_sample=first,
                                  max_paths=(2 if tier == "quick" else 8), budget_s=(240 if tier == "quick" else 1500), natoms=120,
                                  stubs=["rowan.mapping.kabsch -> contract", "ConvexHull(2-D) -> exact gift wrapping"],
                                  bounds="solid %s (%d vertices, %d faces), free scale s in %s, free translation%s, rotation %s; path budget"
                                         % (name, len(base), len(faces), "[1e-6,1/4]" if small else "[1/4,100]", " within 10 s" if small else "", quat)))


def obligations(tier, seed):
    quick = [("nonconvex", "L_prism", "id"), ("nonconvex", "U_prism", "r1"), ("nonconvex", "C_prism", "rz90"), ("nonconvex", "arrow_prism", "r2"),
             ("nonconvex", "frame", "id"), ("nonconvex", "star", "r1"), ("convex", "skew", "id"), ("convex", "cube", "r3"), ("convex", "frustum", "r1")]
    cfgs = list(quick)
    if tier == "thorough":
        for n in SH.NONCONVEX:
            for q in SH.QUATS:
                cfgs.append(("nonconvex", n, q))
        for n in SH.CONVEX:
            cfgs.append(("convex", n, "r2"))
        cfgs = sorted(set(cfgs))
    return [_ob(*c, tier) for c in cfgs] + [_ob("nonconvex", "L_prism", "id", tier, small=True), _ob("convex", "skew", "id", tier, small=True)]
