"""C09 - results are covariant under rotation, translation, scaling and relabelling.

For a base shape X0 and g = (scale s in [1e-3, 1e3] free, translation t free with |t_k| <= 100,
rotation from a rational list incl. the identity and a quarter turn, vertex relabelling / face
rotation), every listed public query is executed on g.X0 with s, t symbolic and compared with the
transformation law applied to the same query on X0 itself (computed by the same code in exact
concrete mode): lengths x s, areas x s^2, volumes x s^3, points moved by g, tensors s^5 R I R^T +
parallel-axis term (s^4 for laminae), directions rotated, containment and dimensionless descriptors
unchanged.  Absolute thresholds in the code (polytri's 1e-6, planarity and isclose tolerances) are
branch conditions in s: any path on which a valid shape raises is a violation, with the scale as
witness.
"""
import random
from fractions import Fraction as F

from . import common, oracles as O, shapes as SH
from .common import run_e2

LEVEL = "model_checking"
TECHNIQUE = "symbolic execution of the public queries on g.X0 with free scale/translation (s in [1e-3,1e3]); results compared with the transformation law applied to the exact concrete run on X0; z3 decides identities and threshold feasibility"
ASSUMPTIONS = [
    "A1 reals not floats",
    "rotations from a finite rational list (identity, quarter turn, three generic); relabellings from a seeded finite list",
    "contract stubs for qhull / kabsch / lstsq; miniball modelled on concrete points only (minimal bounding balls are excluded here)",
]
# query -> law
LEN, AREA, VOL, NONE, POINT, DIR, T3, T2 = "len", "area", "vol", "none", "point", "dir", "tensor3", "tensor2"
LAWS = {
    "Polygon": dict(area=AREA, signed_area=AREA, perimeter=LEN, centroid=POINT, normal=DIR, inertia_tensor=T2, iq=NONE, num_vertices=NONE),
    "ConvexPolygon": dict(area=AREA, perimeter=LEN, centroid=POINT, inertia_tensor=T2, iq=NONE, minimal_centered_bounding_circle_radius=LEN,
                          maximal_centered_bounded_circle_radius=LEN, circumcircle_radius=LEN),
    "ConvexSpheropolygon": dict(area=AREA, perimeter=LEN),
    "Polyhedron": dict(volume=VOL, surface_area=AREA, centroid=POINT, inertia_tensor=T3, iq=NONE, num_edges=NONE, edge_lengths=LEN, normals=DIR,
                       circumsphere_radius=LEN),
    "ConvexPolyhedron": dict(volume=VOL, surface_area=AREA, centroid=POINT, inertia_tensor=T3, iq=NONE, mean_curvature=LEN, tau=NONE, asphericity=NONE,
                             minimal_centered_bounding_sphere_radius=LEN, maximal_centered_bounded_sphere_radius=LEN, face_centroids=POINT, num_edges=NONE,
                             insphere_radius=LEN, circumsphere_radius=LEN),
    "ConvexSpheropolyhedron": dict(volume=VOL, surface_area=AREA, mean_curvature=LEN),
}
BASES = {
    "Polygon": [("arrow", None), ("L", None)],
    "ConvexPolygon": [("quad", None), ("tri", None)],
    "ConvexSpheropolygon": [("quad", None)],
    "Polyhedron": [("L_prism", None), ("cube", "convex"), ("star", None)],
    "ConvexPolyhedron": [("cube", None), ("skew", None), ("octa", None)],
    "ConvexSpheropolyhedron": [("box", None)],
}
RADIUS = F(1, 2)


def _base(kind, bname, tag):
    """vertices (3-D rational), faces or None."""
    if kind in ("Polygon", "ConvexPolygon", "ConvexSpheropolygon"):
        return [(F(x), F(y), F(0)) for x, y in SH.POLYGONS[bname]], None
    if kind == "Polyhedron":
        if tag == "convex":
            v = SH.CONVEX[bname]
            return [tuple(F(c) for c in p) for p in v], SH.convex_facets(v)
        v, f = SH.nonconvex(bname)
        return [tuple(F(c) for c in p) for p in v], f
    return [tuple(F(c) for c in p) for p in SH.CONVEX[bname]], None


def _relabel(verts, faces, k, kind):
    """Relabelling: vertex permutation (convex classes), cyclic face shifts + vertex relabelling (Polyhedron), cyclic shift (polygons)."""
    r = random.Random(300 + k)
    n = len(verts)
    if k == 0:
        return verts, faces
    if kind in ("Polygon", "ConvexSpheropolygon"):
        sh = 1 + k % (n - 1)
        return verts[sh:] + verts[:sh], faces
    perm = list(range(n))
    r.shuffle(perm)
    nv = [verts[perm[i]] for i in range(n)]
    if faces is None:
        return nv, None
    inv = {b: i for i, b in enumerate(perm)}
    nf = []
    for f in faces:
        g = [inv[i] for i in f]
        sh = r.randrange(len(g))
        nf.append(g[sh:] + g[:sh])
    return nv, nf


def _build(kind, H, P, faces, radius=None, simple_test=False):
    import coxeter.shapes as S
    import numpy as rnp

    A = H.arr(P)
    if kind == "Polygon":
        return S.Polygon(A, test_simple=simple_test)
    if kind == "ConvexPolygon":
        return S.ConvexPolygon(A)
    if kind == "ConvexSpheropolygon":
        return S.ConvexSpheropolygon(A, radius)
    if kind == "Polyhedron":
        return S.Polyhedron(A, [rnp.array(f) for f in faces], faces_are_convex=True)
    if kind == "ConvexPolyhedron":
        return S.ConvexPolyhedron(A)
    return S.ConvexSpheropolyhedron(A, radius)


def _as_rows(x):
    import numpy as rnp

    a = rnp.asarray(x, dtype=object)
    return a


def make_body(kind, bname, tag, quat, relabel_k, queries):
    verts0, faces0 = _base(kind, bname, tag)
    verts1, faces1 = _relabel(verts0, faces0, relabel_k, kind)
    q = SH.QUATS[quat]
    R = O.rot_from_quat(*q) if q else [[F(1), F(0), F(0)], [F(0), F(1), F(0)], [F(0), F(0), F(1)]]
    planar = kind in ("Polygon", "ConvexPolygon", "ConvexSpheropolygon")
    if kind == "ConvexSpheropolygon":
        R = O.rot_from_quat(1, 0, 0, 1) if q else R  # this class is only meaningful in the xy-plane: in-plane rotations

    def body(H, V):
        import numpy as rnp

        s, t = V["s"], [V["tx"], V["ty"], V["tz"] if not kind == "ConvexSpheropolygon" else 0 * V["tx"]]
        rad = H.num(RADIUS) if "Sphero" in kind else None
        # reference: the untransformed, unrelabelled base through the same code (exact concrete run)
        ref = _build(kind, H, [[H.num(c) for c in p] for p in verts0], faces0, rad)
        P = [[s * c for c in O.matvec(R, p)] for p in verts1]
        P = [[p[k] + t[k] for k in range(3)] for p in P]
        g = _build(kind, H, P, faces1, (rad * s if rad is not None else None))

        def point(p):
            rp = O.matvec(R, [p[0], p[1], p[2]])
            return [s * rp[k] + t[k] for k in range(3)]

        for name in queries:
            law = LAWS[kind][name]
            try:
                r0 = getattr(ref, name)
            except (RuntimeError, ValueError) as ex:
                H.ok("undefined_on_base:" + name, str(ex)[:60])
                continue
            try:
                r1 = getattr(g, name)
            except (RuntimeError, ValueError) as ex:
                H.fail("no_error_after_transformation:" + name, "%s: %s" % (type(ex).__name__, str(ex)[:80]))
                continue
            H.ok("no_error_after_transformation:" + name)
            if law == NONE:
                H.claim_all_eq("covariant:" + name, r1, r0) if isinstance(r0, rnp.ndarray) else H.claim_eq("covariant:" + name, r1, r0)
            elif law in (LEN, AREA, VOL):
                k = {LEN: s, AREA: s * s, VOL: s * s * s}[law]
                if isinstance(r0, (list, rnp.ndarray)):
                    a0, a1 = sorted_if_relabelled(r0, relabel_k), sorted_if_relabelled(r1, relabel_k)
                    if a0 is None:
                        H.claim_eq("covariant:" + name + ".sum", sum(list(r1)), k * sum(list(r0)))
                    else:
                        H.claim_all_eq("covariant:" + name, a1, [k * x for x in a0])
                else:
                    H.claim_eq("covariant:" + name, r1, k * r0)
            elif law == POINT:
                a0 = rnp.asarray(r0, dtype=object)
                if a0.ndim == 1:
                    H.claim_all_eq("covariant:" + name, r1, point(a0))
                else:
                    # sets of points (order may change with the relabelling): compare sums
                    s0 = [sum(point(p)[k] for p in a0) for k in range(3)]
                    a1 = rnp.asarray(r1, dtype=object)
                    H.claim_all_eq("covariant:" + name + ".sum", [sum(p[k] for p in a1) for k in range(3)], s0)
            elif law == DIR:
                a0 = rnp.asarray(r0, dtype=object)
                if a0.ndim == 1:
                    H.claim_all_eq("covariant:" + name, r1, O.matvec(R, list(a0)))
                else:
                    a1 = rnp.asarray(r1, dtype=object)
                    H.claim_all_eq("covariant:" + name + ".sum", [sum(p[k] for p in a1) for k in range(3)],
                                   [sum(O.matvec(R, list(p))[k] for p in a0) for k in range(3)])
            elif law in (T3, T2):
                # I(gX) = s^d R (I0 - par(c0)) R^T + par(c1), with mass m scaled accordingly
                d = 5 if law == T3 else 4
                m0 = ref.volume if law == T3 else ref.area
                m1 = m0 * (s ** 3 if law == T3 else s ** 2)
                c0 = list(ref.centroid)
                c1 = point(c0)

                def par(c, m):
                    n2 = O.dot(c, c)
                    return [[m * ((n2 if i == j else 0) - c[i] * c[j]) for j in range(3)] for i in range(3)]

                I0 = [[r0[i][j] - par(c0, m0)[i][j] for j in range(3)] for i in range(3)]
                RI = [[sum(R[i][a] * I0[a][b] * R[j][b] for a in range(3) for b in range(3)) for j in range(3)] for i in range(3)]
                want = [[s ** d * RI[i][j] + par(c1, m1)[i][j] for j in range(3)] for i in range(3)]
                H.claim_all_eq("covariant:" + name, r1, want)
        # containment is unchanged: transformed copies of fixed probe points
        if hasattr(g, "is_inside") and kind not in ("ConvexSpheropolygon",):
            c0 = list(ref.centroid) if kind not in ("ConvexSpheropolyhedron", "ConvexSpheropolygon") else [sum(p[k] for p in verts0) / len(verts0) for k in range(3)]
            probes = [[c0[0] + F(1, 9), c0[1] - F(1, 11), c0[2] + (0 if planar else F(1, 13))], [c0[0] + 40, c0[1] + 3, c0[2]]]
            try:
                i0 = ref.is_inside(H.arr([[H.num(c) for c in p] for p in probes]))
                i1 = g.is_inside(H.arr([point(p) for p in probes]))
                for j in range(len(probes)):
                    H.claim("covariant:is_inside[%d]" % j, H.iff(i1[j], i0[j]))
            except (RuntimeError, ValueError) as ex:
                H.fail("no_error_after_transformation:is_inside", "%s: %s" % (type(ex).__name__, str(ex)[:80]))

    return body


def sorted_if_relabelled(x, k):
    """Array-valued size results: element order follows the labelling; with a relabelling only the multiset is comparable."""
    if k == 0:
        return list(x)
    return None


def simple_polygon_body(bname, quat):
    """Polygon(test_simple=True): the Bentley-Ottmann sweep with its absolute epsilons must accept the transformed simple polygon."""
    verts0 = [(F(x), F(y), F(0)) for x, y in SH.POLYGONS[bname]]
    q = SH.QUATS[quat]
    R = O.rot_from_quat(*q) if q else [[F(1), F(0), F(0)], [F(0), F(1), F(0)], [F(0), F(0), F(1)]]

    def body(H, V):
        s, t = V["s"], [V["tx"], V["ty"], V["tz"]]
        P = [[s * c + t[k] for k, c in enumerate(O.matvec(R, p))] for p in verts0]
        try:
            g = _build("Polygon", H, P, None, simple_test=True)
        except ValueError as ex:
            H.fail("simple_polygon_accepted", str(ex)[:100])
            return
        H.ok("simple_polygon_accepted")
        A0 = O.polygon_measures([list(p) for p in verts0], [0, 0, 1])["A"]
        H.claim_eq("covariant:area", g.area, s * s * (A0 if A0 > 0 else -A0))

    return body


def obligations(tier, seed):
    from symx.loader import functions_encoded
    import coxeter.shapes as S
    from coxeter.extern.polytri import polytri
    from coxeter.extern.bentley_ottmann import poly_point_isect

    obs = []
    first = dict(s=F(3, 2), tx=F(7, 3), ty=F(-5, 2), tz=F(11, 4))

    def pre(V):
        cs = [V["s"] >= F(1, 1000), V["s"] <= 1000]
        for k in ("tx", "ty", "tz"):
            cs += [V[k] >= -100, V[k] <= 100]
        return cs

    quats = ["id", "rz90", "r1"] if tier == "quick" else list(SH.QUATS)
    for kind, bases in BASES.items():
        for bi, (bname, tag) in enumerate(bases):
            for qi, quat in enumerate(quats):
                if tier == "quick" and (bi + qi) % 2 == 1 and kind not in ("Polyhedron",):
                    continue
                for rk in ((0, 1) if tier == "quick" else (0, 1, 2, 3)):
                    if tier == "quick" and rk == 1 and qi != 0:
                        continue
                    qs = list(LAWS[kind])
                    nm = "C09/%s.%s.%s.relabel%d" % (kind, bname, quat, rk)
                    cls = getattr(S, kind)
                    fl = [cls.__init__] + [getattr(cls, x).fget for x in qs if isinstance(getattr(cls, x, None), property)] + [polytri.triangulate]
                    obs.append((nm, (lambda nm=nm, kind=kind, bname=bname, tag=tag, quat=quat, rk=rk, qs=qs, fl=fl: run_e2(
                        nm, ["s", "tx", "ty", "tz"], make_body(kind, bname, tag, quat, rk, qs), positive=["s"], pre=pre, first_sample=first,
                        functions=functions_encoded(fl), max_paths=(4 if tier == "quick" else 16), budget_s=(200 if tier == "quick" else 1200),
                        stubs=["qhull / kabsch / lstsq contract stubs"],
                        bounds="%s %s, scale s in [1e-3,1e3] free, translation in [-100,100]^3 free, rotation %s, relabelling %d; queries %s; path budget"
                               % (kind, bname, quat, rk, ",".join(qs))))))
    for bname, quat in ([("quad", "id"), ("arrow", "r1")] if tier == "quick" else [("quad", "id"), ("arrow", "r1"), ("L", "rz90"), ("tri", "r2")]):
        nm = "C09/Polygon.simple_test.%s.%s" % (bname, quat)
        obs.append((nm, (lambda nm=nm, bname=bname, quat=quat: run_e2(
            nm, ["s", "tx", "ty", "tz"], simple_polygon_body(bname, quat), positive=["s"], pre=pre, first_sample=first,
            functions=functions_encoded([S.Polygon.__init__, poly_point_isect.isect_polygon]), max_paths=(12 if tier == "quick" else 60),
            budget_s=(200 if tier == "quick" else 1200), stubs=["kabsch contract stub"],
            bounds="Polygon(test_simple=True) on %s, scale s in [1e-3,1e3], translation free, rotation %s: real Bentley-Ottmann sweep; path budget" % (bname, quat)))))
    return obs
