"""C05 - 3-D point containment equals exact membership.

Concrete rational solids (convex and non-convex incl. non-star-shaped and genus 1) under rational
rotations and offsets; the query point(s) are free reals (3 each), so the solver covers all of
space, including points sharing coordinates with vertices.  ``Polyhedron.is_inside`` (winding
number) and ``ConvexPolyhedron.is_inside`` run branch-free in piecewise mode; Sphere/Ellipsoid
with all parameters free; ``ConvexSpheropolyhedron.is_inside`` (branching code) by concolic paths.
"""
from fractions import Fraction as F

from . import common, oracles as O, shapes as SH
from .common import run_e2

LEVEL = "model_checking"
TECHNIQUE = "symbolic execution of the real is_inside with free query points (piecewise-constant terms / concolic paths) + z3 decides impl <=> exact membership over all of space"
ASSUMPTIONS = [
    "A1 reals not floats; 'not within a tiny margin of the boundary' = not on the boundary surface",
    "qhull / kabsch replaced by contract stubs; polytri runs for real (exact concrete mode)",
    "solids are concrete rational shapes from the base list (<= 16 vertices, <= 30 triangles); batch <= 3",
]
OFF = [F(3), F(-2), F(5)]


def _placed(verts, quat):
    return SH.place(verts, quat, 1, OFF)


def _convex_pieces(name, Pv, faces):
    """Convex decomposition used by the oracle: list of half-space lists (N, a) with N outward."""
    pieces = []

    def hull_halfspaces(idx):
        pts = [Pv[i] for i in idx]
        fs = SH.convex_facets(pts)
        hs = []
        for f in fs:
            a, b, c = pts[f[0]], pts[f[1]], pts[f[2]]
            hs.append((O.cross(O.sub(b, a), O.sub(c, a)), a))
        return hs

    if name.endswith("_prism"):
        poly = SH.POLYGONS[name[:-6]]
        n = len(poly)
        for a, b, c in SH.ear_clip(poly):
            pieces.append(hull_halfspaces([a, b, c, n + a, n + b, n + c]))
    elif name == "frame":
        for i in range(4):
            j = (i + 1) % 4
            pieces.append(hull_halfspaces([i, j, 4 + i, 4 + j, 8 + i, 8 + j, 12 + i, 12 + j]))
    elif name == "star":
        org = [sum(p[k] for p in Pv[:6]) / 6 for k in range(3)]
        for f in faces:
            pts = [org] + [Pv[i] for i in f]
            fs = SH.convex_facets(pts)
            pieces.append([(O.cross(O.sub(pts[g[1]], pts[g[0]]), O.sub(pts[g[2]], pts[g[0]])), pts[g[0]]) for g in fs])
    else:
        raise KeyError(name)
    return pieces


def _inside_oracle(H, pieces, p):
    return H.or_(*[H.and_(*[O.dot(N, O.sub(p, a)) <= 0 for N, a in hs]) for hs in pieces])


def _on_surface(H, Pv, faces, p):
    conds = []
    for f in faces:
        vs = [Pv[i] for i in f]
        N = O.cross(O.sub(vs[1], vs[0]), O.sub(vs[2], vs[0]))
        inpoly = [O.dot(N, O.cross(O.sub(vs[(i + 1) % len(vs)], vs[i]), O.sub(p, vs[i]))) >= 0 for i in range(len(vs))]
        conds.append(H.and_(O.dot(N, O.sub(p, vs[0])) == 0, *inpoly))
    return H.or_(*conds)


def make_mesh_body(kind, name, quat, mode):
    if kind == "convex":
        base = SH.CONVEX[name]
        faces = SH.convex_facets(base)
    else:
        base, faces = SH.nonconvex(name)
    Pv = _placed(base, quat)
    if kind == "convex":
        pieces = [[(O.cross(O.sub(Pv[f[1]], Pv[f[0]]), O.sub(Pv[f[2]], Pv[f[0]])), Pv[f[0]]) for f in faces]]
    else:
        pieces = _convex_pieces(name, Pv, faces)
    npts = 3 if mode == "batch3" else 1

    def body(H, V):
        import coxeter.shapes as S
        import numpy as rnp

        ctx = getattr(H, "ctx", None)
        verts = [[H.num(c) for c in p] for p in Pv]
        if kind == "convex" and mode != "aspoly":
            poly = S.ConvexPolyhedron(H.arr(verts))
        else:
            poly = S.Polyhedron(H.arr(verts), [rnp.array(f) for f in faces], faces_are_convex=True)
        pts = [[V["p%d%s" % (i, c)] for c in "xyz"] for i in range(npts)]
        if ctx is not None:
            ctx.pw_mode = True
        try:
            arg = H.arr(pts[0]) if mode == "single" else H.arr(pts)
            res = poly.is_inside(arg)
        finally:
            if ctx is not None:
                ctx.pw_mode = False
        H.claim("result_shape", len(res) == npts)
        H.claim_all_eq("points_unchanged", list(arg) if mode == "single" else [list(row) for row in arg], pts[0] if mode == "single" else pts)
        for i, p in enumerate(pts):
            ins = _inside_oracle(H, pieces, p)
            onb = _on_surface(H, Pv, faces, p)
            H.claim("inside[%d]<=>oracle" % i, H.or_(onb, H.iff(res[i], ins)))

    return body


def _mesh_ob(kind, name, quat, mode, tier):
    oname = "C05/%s.%s.%s.%s" % (kind, name, quat, mode)
    npts = 3 if mode == "batch3" else 1
    names = ["p%d%s" % (i, c) for i in range(npts) for c in "xyz"]
    import coxeter.shapes as S
    from coxeter.extern.polytri import polytri
    from symx.loader import functions_encoded

    fns = functions_encoded([S.Polyhedron.is_inside, S.ConvexPolyhedron.is_inside, S.Polyhedron._point_plane_distances,
                             S.Polyhedron._surface_triangulation, polytri.triangulate])
    first = {}
    for i in range(npts):
        first.update({"p%dx" % i: F(22 + i, 7), "p%dy" % i: F(-13 - i, 8), "p%dz" % i: F(51 + i, 10)})
    nv = len(SH.CONVEX[name]) if kind == "convex" else len(SH.nonconvex(name)[0])
    return (oname, lambda: run_e2(oname, names, make_mesh_body(kind, name, quat, mode), functions=fns, first_sample=first, max_paths=4, budget_s=300,
                                  solver_timeout_ms=120000,
                                  stubs=["ConvexHull(3-D) -> exact hull", "rowan.mapping.kabsch -> contract"],
                                  bounds="solid %s (%d vertices, concrete rational), rotation %s, offset (3,-2,5); %d query point(s) x 3 free reals; input form %s"
                                         % (name, nv, quat, npts, mode)))


def sphere_body(H, V):
    from coxeter.shapes import Sphere

    r = V["r"]
    c = [V["cx"], V["cy"], V["cz"]]
    p = [V["px"], V["py"], V["pz"]]
    s = Sphere(r, c)
    d2 = O.dot(O.sub(p, c), O.sub(p, c))
    arg = H.arr([p])
    res = s.is_inside(arg)
    H.claim("sphere.inside<=>oracle", H.or_(d2 == r * r, H.iff(res[0], d2 < r * r)))
    # the caller's array is an input: unchanged, and the same array (or a row of it) asked again gives the same answer
    H.claim_all_eq("sphere.points_unchanged", [list(row) for row in arg], [p])
    res2 = s.is_inside(arg)
    H.claim("sphere.same_array_again", H.or_(d2 == r * r, H.iff(res2[0], d2 < r * r)))
    res1 = s.is_inside(arg[0])
    H.claim("sphere.single_form", H.or_(d2 == r * r, H.iff(res1[0], d2 < r * r)))


def ellipsoid_body(H, V):
    from coxeter.shapes import Ellipsoid

    a, b, c = V["a"], V["b"], V["c"]
    cen = [V["cx"], V["cy"], V["cz"]]
    p = [V["px"], V["py"], V["pz"]]
    s = Ellipsoid(a, b, c, cen)
    d = O.sub(p, cen)
    q = d[0] * d[0] * b * b * c * c + d[1] * d[1] * a * a * c * c + d[2] * d[2] * a * a * b * b
    rhs = a * a * b * b * c * c
    arg = H.arr([p])
    res = s.is_inside(arg)
    H.claim("ellipsoid.inside<=>oracle", H.or_(q == rhs, H.iff(res[0], q < rhs)))
    H.claim_all_eq("ellipsoid.points_unchanged", [list(row) for row in arg], [p])
    res2 = s.is_inside(arg)
    H.claim("ellipsoid.same_array_again", H.or_(q == rhs, H.iff(res2[0], q < rhs)))


def make_sphero_body(dims, free_r):
    """Box core [0,a]x[0,b]x[0,c] placed at OFF; oracle: distance to the box <= r."""
    a, b, c = dims
    base = [(x, y, z) for x in (0, a) for y in (0, b) for z in (0, c)]
    lo = [OFF[k] for k in range(3)]
    hi = [OFF[0] + a, OFF[1] + b, OFF[2] + c]

    def body(H, V):
        from coxeter.shapes import ConvexSpheropolyhedron

        r = V["r"] if free_r is True else H.num(F(0) if free_r == "zero" else F(1, 2))
        verts = [[H.num(OFF[k] + F(v[k])) for k in range(3)] for v in base]
        s = ConvexSpheropolyhedron(H.arr(verts), r)
        p = [V["px"], V["py"], V["pz"]]
        arg = H.arr([p])
        res = s.is_inside(arg)
        H.claim_all_eq("sphero.points_unchanged", [list(row) for row in arg], [p])
        # squared distance to the box, by cases per axis
        d2 = 0
        for k in range(3):
            if p[k] < lo[k]:
                d2 = d2 + (lo[k] - p[k]) * (lo[k] - p[k])
            elif p[k] > hi[k]:
                d2 = d2 + (p[k] - hi[k]) * (p[k] - hi[k])
        H.claim("sphero.inside<=>oracle", H.or_(d2 == r * r, H.iff(res[0], d2 < r * r)))

    return body


def _pt_tri_d2(p, a, b, c):
    """Squared distance from point p to triangle abc (Ericson's region walk; comparisons fork in symbolic mode)."""
    ab, ac, ap = O.sub(b, a), O.sub(c, a), O.sub(p, a)
    d1, d2 = O.dot(ab, ap), O.dot(ac, ap)
    if d1 <= 0 and d2 <= 0:
        return O.dot(ap, ap)
    bp = O.sub(p, b)
    d3, d4 = O.dot(ab, bp), O.dot(ac, bp)
    if d3 >= 0 and d4 <= d3:
        return O.dot(bp, bp)
    vc = d1 * d4 - d3 * d2
    if vc <= 0 and d1 >= 0 and d3 <= 0:
        v = d1 / (d1 - d3)
        q = O.sub(ap, O.scale(v, ab))
        return O.dot(q, q)
    cp = O.sub(p, c)
    d5, d6 = O.dot(ab, cp), O.dot(ac, cp)
    if d6 >= 0 and d5 <= d6:
        return O.dot(cp, cp)
    vb = d5 * d2 - d1 * d6
    if vb <= 0 and d2 >= 0 and d6 <= 0:
        w = d2 / (d2 - d6)
        q = O.sub(ap, O.scale(w, ac))
        return O.dot(q, q)
    va = d3 * d6 - d5 * d4
    if va <= 0 and (d4 - d3) >= 0 and (d5 - d6) >= 0:
        w = (d4 - d3) / ((d4 - d3) + (d5 - d6))
        q = O.sub(bp, O.scale(w, O.sub(c, b)))
        return O.dot(q, q)
    n = O.cross(ab, ac)
    h = O.dot(n, ap)
    return h * h / O.dot(n, n)


def make_sphero_general_body(shape, quat, rr):
    base = SH.CONVEX[shape]
    facets = SH.convex_facets(base)
    Pv = _placed(base, quat)

    def body(H, V):
        from coxeter.shapes import ConvexSpheropolyhedron

        s = ConvexSpheropolyhedron(H.arr([[H.num(c) for c in p] for p in Pv]), H.num(rr))
        p = [V["px"], V["py"], V["pz"]]
        res = s.is_inside(H.arr([p]))
        inside = True
        for f in facets:
            a, b, c = Pv[f[0]], Pv[f[1]], Pv[f[2]]
            if O.dot(O.cross(O.sub(b, a), O.sub(c, a)), O.sub(p, a)) > 0:
                inside = False
        if inside:
            d2 = 0 * p[0]
        else:
            d2 = None
            for f in facets:
                for a, b, c in SH.fan(f):
                    t = _pt_tri_d2(p, Pv[a], Pv[b], Pv[c])
                    if d2 is None or t < d2:
                        d2 = t
        H.claim("sphero.inside<=>oracle", H.or_(H.eqb(d2, rr * rr), H.iff(res[0], d2 < rr * rr)))

    return body


def obligations(tier, seed):
    from symx.loader import functions_encoded
    import coxeter.shapes as S

    quick = [
        ("convex", "cube", "id", "batch1"), ("convex", "tetra", "r1", "single"), ("convex", "skew", "r2", "batch3"), ("convex", "frustum", "r3", "batch1"),
        ("convex", "cube", "r1", "aspoly"), ("convex", "octa", "id", "aspoly"),
        ("nonconvex", "L_prism", "id", "batch1"), ("nonconvex", "U_prism", "id", "batch1"), ("nonconvex", "U_prism", "r1", "single"),
        ("nonconvex", "frame", "id", "batch1"), ("nonconvex", "star", "r2", "batch1"), ("nonconvex", "arrow_prism", "rz90", "single"), ("convex", "prism3", "r1", "batch3"),
    ]
    cfgs = list(quick)
    if tier == "thorough":
        for n in SH.CONVEX:
            for q in SH.QUATS:
                cfgs.append(("convex", n, q, "batch1"))
                cfgs.append(("convex", n, q, "aspoly"))
        for n in SH.NONCONVEX:
            for q in SH.QUATS:
                cfgs.append(("nonconvex", n, q, "batch1"))
        cfgs = sorted(set(cfgs))
    obs = [_mesh_ob(*c, tier) for c in cfgs]
    obs.append(("C05/sphere", lambda: run_e2("C05/sphere", ["r", "cx", "cy", "cz", "px", "py", "pz"], sphere_body, positive=["r"],
                                             functions=functions_encoded([S.Sphere.is_inside]), bounds="radius, centre, point: 7 free reals")))
    obs.append(("C05/ellipsoid", lambda: run_e2("C05/ellipsoid", ["a", "b", "c", "cx", "cy", "cz", "px", "py", "pz"], ellipsoid_body,
                                                positive=["a", "b", "c"], functions=functions_encoded([S.Ellipsoid.is_inside]),
                                                bounds="semi-axes, centre, point: 9 free reals")))
    sph = [((1, 1, 1), False), ((F(1, 2), 3, 1), True)] if tier == "quick" else [((1, 1, 1), False), ((F(1, 2), 3, 1), True), ((4, F(1, 3), 2), True), ((1, 1, 1), True)]
    sph.append(((F(1, 2), 3, 1), "zero"))  # rounding radius 0 is a legal spheropolyhedron: the solid is the core
    for dims, free_r in sph:
        nm = "C05/sphero.box%s.%s" % ("x".join(str(d) for d in dims), {True: "rfree", False: "r0.5", "zero": "r0"}[free_r])
        names = (["r"] if free_r is True else []) + ["px", "py", "pz"]
        obs.append((nm, (lambda nm=nm, dims=dims, free_r=free_r, names=names: run_e2(
            nm, names, make_sphero_body(dims, free_r), positive=(["r"] if free_r is True else []),
            functions=functions_encoded([S.ConvexSpheropolyhedron.is_inside, S.ConvexPolyhedron.__init__]),
            first_sample=dict(px=F(7, 2), py=F(-9, 4), pz=F(41, 8), **({"r": F(2, 5)} if free_r is True else {})),
            max_paths=(60 if tier == "quick" else 400), budget_s=(150 if tier == "quick" else 1200),
            stubs=["ConvexHull(3-D) -> exact hull", "rowan.mapping.kabsch -> contract"],
            bounds="box core %s at offset (3,-2,5), rounding radius %s, query point 3 free reals; concolic path budget" % (dims, {True: "free > 0", False: "1/2", "zero": "0"}[free_r])))))
    gen = [("tetra", "r1", F(1, 2)), ("prism3", "id", F(1, 3))] if tier == "quick" else [("tetra", "r1", F(1, 2)), ("prism3", "id", F(1, 3)), ("skew", "r2", F(1, 2)), ("octa", "r3", F(1, 4)), ("pyramid", "r1", F(1, 2))]
    for shape, quat, rr in gen:
        nm = "C05/sphero.%s.%s.r%s" % (shape, quat, str(rr).replace("/", "_"))
        obs.append((nm, (lambda nm=nm, shape=shape, quat=quat, rr=rr: run_e2(
            nm, ["px", "py", "pz"], make_sphero_general_body(shape, quat, rr), functions=functions_encoded([S.ConvexSpheropolyhedron.is_inside, S.ConvexPolyhedron.__init__]),
            first_sample=dict(px=F(7, 2), py=F(-9, 4), pz=F(41, 8)), max_paths=(40 if tier == "quick" else 300), budget_s=(180 if tier == "quick" else 1200),
            stubs=["ConvexHull(3-D) -> exact hull", "rowan.mapping.kabsch -> contract"],
            bounds="spheropolyhedron core %s (rotation %s, offset (3,-2,5)), rounding radius %s, query point 3 free reals; oracle = point-to-triangle distances; concolic path budget" % (shape, quat, rr)))))
    return obs
