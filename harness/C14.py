"""C14 - distance_to_surface is the radial distance from the centre to the boundary.

The angle theta is *any real*: theta = atan2(2t, 1 - t^2) + 2 pi k with t a free real (every direction
except theta = pi, which is a separate concrete case) and k in {-1, 0, 1} (thorough: -2..2).  The
real methods run through the angle algebra of symx (arctan2 / mod 2 pi / comparisons as exact
half-plane and cross-product predicates; cos, sin, tan as exact components).  Oracle: the point
P = centre + d (cos theta, sin theta) lies on the boundary - convex polygon: every edge half-plane
<= 0 and one = 0, d > 0; ellipse: quadratic form = 1; spheropolygon: distance from P to the core
polygon = r - with the centre the centroid (spheropolygon: of the core).
"""
from fractions import Fraction as F

from . import common, oracles as O, shapes as SH
from .common import run_e2

LEVEL = "model_checking"
TECHNIQUE = "symbolic execution of distance_to_surface with a free direction parameter and turn count (exact angle algebra); boundary-membership oracle decided by z3 (QF_NRA)"
ASSUMPTIONS = [
    "A1 reals not floats: the directions theta = +-pi/2 (t = +-1), where the code divides by tan(theta) - slope in exact arithmetic but not in floats, are excluded for polygons",
    "polygons and spheropolygon cores are concrete rational shapes (n <= 6) in the xy-plane with in-plane rotations / offsets; circle and ellipse fully free",
    "kabsch / 2-D qhull contract stubs",
]
POLYS = {
    "quad": [(0, 0), (4, 0), (5, 3), (1, 4)],
    "trapezoid": [(0, 0), (6, 0), (6, 3), (0, 6)],
    "square_axes": [(-1, -1), (2, -1), (2, 2), (-1, 2)],
    "tri": [(0, 0), (4, 0), (1, 3)],
    "pent": [(0, 0), (4, 0), (5, 2), (2, 5), (-1, 2)],
    "rect_off": [(3, 1), (7, 1), (7, 3), (3, 3)],
}


def _theta(H, V, k):
    t = V["t"]
    c, s = (1 - t * t) / (1 + t * t), 2 * t / (1 + t * t)
    if H.symbolic:
        from symx.angle import SymAngle

        return SymAngle(c, s, k), c, s
    import math

    return math.atan2(s, c) + 2 * math.pi * k, c, s


def circle_body(H, V):
    from coxeter.shapes import Circle

    for k in (-1, 0, 2):
        th, c, s = _theta(H, V, k)
        d = Circle(V["r"], [V["cx"], V["cy"], 0 * V["r"]]).distance_to_surface(H.arr([th]))
        H.claim_eq("circle.distance=r[k=%d]" % k, d[0], V["r"])


def ellipse_body(k):
    def body(H, V):
        from coxeter.shapes import Ellipse

        a, b = V["a"], V["b"]
        th, c, s = _theta(H, V, k)
        d = Ellipse(a, b, [V["cx"], V["cy"], 0 * a]).distance_to_surface(H.arr([th]))[0]
        H.claim("ellipse.d>0", d > 0)
        H.claim_eq("ellipse.point_on_boundary", (d * c) ** 2 * b * b + (d * s) ** 2 * a * a, a * a * b * b)

    return body


def polygon_body(pname, k, offset, clockwise=False):
    base = [(F(x) + offset[0], F(y) + offset[1]) for x, y in POLYS[pname]]
    if clockwise:
        base = base[::-1]  # the same region listed clockwise: the default normal becomes -z; the polygon still lies in the xy-plane

    def body(H, V):
        from coxeter.shapes import ConvexPolygon

        th, c, s = _theta(H, V, k)
        P = [[H.num(x), H.num(y), H.num(0)] for x, y in base]
        p = ConvexPolygon(H.arr(P))
        d = p.distance_to_surface(H.arr([th]))[0]
        m = O.polygon_measures([[F(x), F(y), F(0)] for x, y in base], [0, 0, 1])
        cen = m["c"]
        pt = [cen[0] + d * c, cen[1] + d * s]
        H.claim("polygon.d>0", d > 0)
        hs = []
        n = len(base)
        sgn = 1 if m["A"] > 0 else -1
        for i in range(n):
            (x1, y1), (x2, y2) = base[i], base[(i + 1) % n]
            # signed (twice) area of (v_i, v_{i+1}, pt): >= 0 inside for a ccw polygon
            hs.append(sgn * ((x2 - x1) * (pt[1] - y1) - (y2 - y1) * (pt[0] - x1)))
        H.claim("polygon.point_inside_closed", H.and_(*[H.le(0 * h, h) for h in hs]))
        H.claim("polygon.point_on_an_edge", H.or_(*[H.eqb(h, 0) for h in hs]))

    return body


def _dist2_to_polygon(H, base, pt):
    """Squared distance from pt to the (closed) convex polygon ``base`` (ccw), by cases - harness-side oracle."""
    n = len(base)
    inside = True
    best = None
    for i in range(n):
        (x1, y1), (x2, y2) = base[i], base[(i + 1) % n]
        ex, ey = x2 - x1, y2 - y1
        wx, wy = pt[0] - x1, pt[1] - y1
        cr = ex * wy - ey * wx
        if cr < 0:
            inside = False
        tt = wx * ex + wy * ey
        L2 = ex * ex + ey * ey
        if tt <= 0:
            d2 = wx * wx + wy * wy
        elif tt >= L2:
            d2 = (pt[0] - x2) ** 2 + (pt[1] - y2) ** 2
        else:
            d2 = cr * cr / L2
        if best is None or d2 < best:
            best = d2
    return 0 * best if inside else best


def sphero_body(pname, k, rr, clockwise=False):
    ccw = [(F(x), F(y)) for x, y in POLYS[pname]]
    base = ccw[::-1] if clockwise else ccw  # what the constructor gets; the oracle below works on the counter-clockwise list

    def body(H, V):
        from coxeter.shapes import ConvexSpheropolygon

        th, c, s = _theta(H, V, k)
        P = [[H.num(x), H.num(y), H.num(0)] for x, y in base]
        sp = ConvexSpheropolygon(H.arr(P), H.num(rr))
        d = sp.distance_to_surface(H.arr([th]))[0]
        m = O.polygon_measures([[F(x), F(y), F(0)] for x, y in base], [0, 0, 1])
        cen = m["c"]
        pt = [cen[0] + d * c, cen[1] + d * s]
        H.claim("sphero.d>0", d > 0)
        d2 = _dist2_to_polygon(H, ccw, pt)
        H.claim_eq("sphero.point_at_distance_r_from_core", d2, rr * rr)

    return body


def obligations(tier, seed):
    from symx.loader import functions_encoded
    import coxeter.shapes as S

    obs = []
    ks = (-1, 0, 1) if tier == "quick" else (-2, -1, 0, 1, 2)
    obs.append(("C14/circle", lambda: run_e2("C14/circle", ["r", "cx", "cy", "t"], circle_body, positive=["r"], first_sample=dict(r=F(2), cx=F(1), cy=F(-1), t=F(1, 3)),
                                             functions=functions_encoded([S.Circle.distance_to_surface]), bounds="radius, centre, direction parameter t free; turn counts -1, 0, 2")))
    for k in ks:
        nm = "C14/ellipse.k%d" % k
        obs.append((nm, (lambda nm=nm, k=k: run_e2(nm, ["a", "b", "cx", "cy", "t"], ellipse_body(k), positive=["a", "b"],
                                                   first_sample=dict(a=F(2), b=F(3), cx=F(1), cy=F(-1), t=F(1, 3)), functions=functions_encoded([S.Ellipse.distance_to_surface]),
                                                   bounds="semi-axes, centre and direction parameter t free (all directions except pi), turn count %d" % k))))

    def pre(V):
        return [V["t"] != 1, V["t"] != -1]

    pcfg = [("quad", 0, (0, 0)), ("trapezoid", 0, (0, 0)), ("square_axes", 0, (0, 0)), ("tri", 1, (0, 0)), ("pent", -1, (3, -2)), ("rect_off", 0, (0, 0)),
            ("trapezoid", 1, (-7, 2))]
    if tier == "thorough":
        pcfg = [(p, k, o) for p in POLYS for k in ks for o in ((0, 0), (3, -2))]
    for pname, k, off in pcfg:
        nm = "C14/ConvexPolygon.%s.k%d.off%s" % (pname, k, "%d_%d" % off)
        obs.append((nm, (lambda nm=nm, pname=pname, k=k, off=off: run_e2(
            nm, ["t"], polygon_body(pname, k, off), pre=pre, first_sample=dict(t=F(1, 3)), functions=functions_encoded([S.ConvexPolygon.distance_to_surface]),
            max_paths=(40 if tier == "quick" else 120), budget_s=(200 if tier == "quick" else 900), stubs=["kabsch / qhull contract stubs"],
            bounds="convex polygon %s (concrete, offset %s), direction parameter t free (all directions except pi and +-pi/2), turn count %d; path budget" % (pname, off, k)))))
    for pname, k, off in ([("trapezoid", 0, (0, 0)), ("quad", 0, (3, -2))] if tier == "quick" else [(p, k, (0, 0)) for p in POLYS for k in (0, 1)]):
        nm = "C14/ConvexPolygon.clockwise.%s.k%d.off%s" % (pname, k, "%d_%d" % off)
        obs.append((nm, (lambda nm=nm, pname=pname, k=k, off=off: run_e2(
            nm, ["t"], polygon_body(pname, k, off, clockwise=True), pre=pre, first_sample=dict(t=F(1, 3)), functions=functions_encoded([S.ConvexPolygon.distance_to_surface]),
            max_paths=(40 if tier == "quick" else 120), budget_s=(200 if tier == "quick" else 900), stubs=["kabsch / qhull contract stubs"],
            bounds="convex polygon %s listed clockwise (offset %s), direction parameter t free, turn count %d; path budget" % (pname, off, k)))))
    scfg = [("square_axes", 0, F(1, 2)), ("trapezoid", 0, F(1, 2)), ("rect_off", 0, F(1, 4)), ("square_axes", 1, F(1, 2)), ("trapezoid", -1, F(1, 2))]
    if tier == "thorough":
        scfg += [("quad", 0, F(1, 2)), ("tri", 0, F(1, 3)), ("pent", 0, F(1, 2)), ("tri", 2, F(3)), ("rect_off", -2, F(1, 4))]
    scfg = [(a, b, c, False) for a, b, c in scfg] + [("square_axes", 0, F(1, 2), True), ("rect_off", 0, F(1, 4), True)] + ([("trapezoid", 0, F(1, 2), True), ("tri", 1, F(1, 3), True), ("quad", 0, F(1, 2), True)] if tier == "thorough" else [])
    for pname, k, rr, cw in scfg:
        nm = "C14/ConvexSpheropolygon.%s%s.k%d.r%s" % ("clockwise." if cw else "", pname, k, str(rr).replace("/", "_"))
        obs.append((nm, (lambda nm=nm, pname=pname, k=k, rr=rr, cw=cw: run_e2(
            nm, ["t"], sphero_body(pname, k, rr, cw), pre=pre, first_sample=dict(t=F(1, 3)),
            functions=functions_encoded([S.ConvexSpheropolygon.distance_to_surface, S.ConvexSpheropolygon._get_outward_unit_normal, S.ConvexPolygon.distance_to_surface]),
            max_paths=(12 if tier == "quick" else 60), budget_s=(200 if tier == "quick" else 900), alt_timeout_ms=2000, solver_timeout_ms=8000,
            stubs=["kabsch / qhull contract stubs"],
            bounds="spheropolygon core %s, rounding radius %s, direction parameter t free, turn count %d; path budget" % (pname, rr, k)))))
    return obs
