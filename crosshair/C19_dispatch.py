"""CrossHair (E1) harness for C19: GSD type dispatch and to_json key handling.

Each function calls the real coxeter API; CrossHair + z3 search the symbolic str / list / dict
inputs for a counterexample to the postcondition.
"""
from typing import Dict, List

import coxeter.shapes as S
from coxeter.shape_getters import from_gsd_type_shapes

KNOWN = ("Sphere", "Ellipsoid", "Polygon", "ConvexPolyhedron", "Mesh")
TET = [[0.0, 0.0, 0.0], [1.0, 0.0, 0.0], [0.0, 1.0, 0.0], [0.0, 0.0, 1.0]]
TRI = [[0.0, 0.0, 0.0], [1.0, 0.0, 0.0], [0.0, 1.0, 0.0]]
FACES = [[0, 2, 1], [0, 1, 3], [0, 3, 2], [1, 2, 3]]


def _params(t, rounded):
    p = {"type": t, "diameter": 2.0, "a": 1.0, "b": 2.0, "c": 3.0, "indices": FACES}
    p["vertices"] = TRI if t == "Polygon" else TET
    if rounded:
        p["rounding_radius"] = 0.5
    return p


POOL = ("diameter", "a", "b", "c", "vertices", "rounding_radius", "indices", "Type", "types", "typ")


def gsd_missing_type_raises(idx: List[int], dims: int) -> bool:
    """
    pre: len(idx) <= 2
    pre: all(0 <= i < 10 for i in idx)
    post: _
    """
    params = {POOL[i]: 1.0 for i in idx}  # any combination of keys that are not 'type'
    try:
        from_gsd_type_shapes(params, dims)
    except ValueError:
        return True
    return False


def gsd_unknown_type_raises(t: str, dims: int, rounded: bool) -> bool:
    """
    pre: t not in KNOWN
    pre: len(t) <= 6
    post: _
    """
    try:
        from_gsd_type_shapes(_params(t, rounded), dims)
    except ValueError:
        return True
    return False


def _expected(t, dims, rounded):
    if t == "Sphere":
        return "Circle" if dims == 2 else "Sphere"
    if t == "Ellipsoid":
        return "Ellipse" if dims == 2 else "Ellipsoid"
    if t == "Polygon":
        return "ConvexSpheropolygon" if rounded else "ConvexPolygon"
    if t == "ConvexPolyhedron":
        return "ConvexSpheropolyhedron" if rounded else "ConvexPolyhedron"
    return "Polyhedron"


def gsd_dispatch_classes(i: int, dims: int, rounded: bool) -> bool:
    """
    pre: 0 <= i < 5
    pre: dims == 2 or dims == 3
    post: _
    """
    t = KNOWN[i]
    shape = from_gsd_type_shapes(_params(t, rounded), dims)
    return type(shape).__name__ == _expected(t, dims, rounded)


ATTRS = ("radius", "area", "perimeter", "centroid", "iq", "eccentricity", "circumference")


def to_json_exact_keys(idx: List[int]) -> bool:
    """
    pre: len(idx) <= 2
    pre: all(0 <= i < 7 for i in idx)
    post: _
    """
    names = [ATTRS[i] for i in idx]
    c = S.Circle(1.5, (1.0, 2.0, 3.0))
    d = c.to_json(names)
    return set(d.keys()) == set(names) and all(str(d[n]) == str(getattr(c, n)) for n in names)


UNKNOWN = ("x", "radiu", "Radius", "areas", "", "vertices", "volume", "a", "faces", "centre")


def to_json_unknown_attribute(i: int, j: int) -> bool:
    """
    pre: 0 <= i < 10
    pre: 0 <= j < 7
    post: _
    """
    c = S.Circle(1.5, (1.0, 2.0, 3.0))
    try:
        c.to_json([ATTRS[j], UNKNOWN[i]])  # a valid attribute followed by an unknown one
    except AttributeError:
        return True
    return False
