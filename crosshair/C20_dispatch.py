"""CrossHair (E1) harness for C20: Polyhedron.save dispatch on the file-type string."""
import os
import tempfile

from coxeter import io
from coxeter.shapes import ConvexPolyhedron

TYPES = ("OBJ", "OFF", "STL", "PLY", "VTK", "X3D", "HTML")
CUBE = ConvexPolyhedron([(x, y, z) for x in (0.0, 1.0) for y in (0.0, 1.0) for z in (0.0, 1.0)])
CALLED = []


class _Spy:
    """coxeter.io with every writer replaced by a recorder (the dispatch, not the writers, is the subject)."""

    def __getattr__(self, name):
        def w(shape, filename):
            CALLED.append(name)

        return w


def save_unknown_type_raises(filetype: str) -> bool:
    """
    pre: len(filetype) <= 4
    pre: filetype not in TYPES
    post: _
    """
    import coxeter.shapes.polyhedron as P

    real, P.io = P.io, _Spy()
    del CALLED[:]
    try:
        CUBE.save(filetype, "unused")
    except ValueError:
        return not CALLED
    finally:
        P.io = real
    return False


def save_dispatch(i: int) -> bool:
    """
    pre: 0 <= i < 7
    post: _
    """
    import coxeter.shapes.polyhedron as P

    real, P.io = P.io, _Spy()
    del CALLED[:]
    try:
        CUBE.save(TYPES[i], "unused")
    finally:
        P.io = real
    return CALLED == ["to_" + TYPES[i].lower()]
